//! Replay helpers: drive the REAL crate with a counting waker (no runtime), build small graphs.
use std::sync::atomic::{AtomicUsize, Ordering};
use std::sync::Arc;
use std::task::{Context, RawWaker, RawWakerVTable, Waker};

pub struct WakeCount(pub AtomicUsize);

fn vt_clone(p: *const ()) -> RawWaker {
    let a = unsafe { Arc::from_raw(p as *const WakeCount) };
    let b = a.clone();
    std::mem::forget(a);
    RawWaker::new(Arc::into_raw(b) as *const (), &VTABLE)
}
fn vt_wake(p: *const ()) {
    let a = unsafe { Arc::from_raw(p as *const WakeCount) };
    a.0.fetch_add(1, Ordering::SeqCst);
}
fn vt_wake_by_ref(p: *const ()) {
    let a = unsafe { Arc::from_raw(p as *const WakeCount) };
    a.0.fetch_add(1, Ordering::SeqCst);
    std::mem::forget(a);
}
fn vt_drop(p: *const ()) {
    unsafe { drop(Arc::from_raw(p as *const WakeCount)) };
}
static VTABLE: RawWakerVTable = RawWakerVTable::new(vt_clone, vt_wake, vt_wake_by_ref, vt_drop);

pub fn counting_waker() -> (Waker, Arc<WakeCount>) {
    let a = Arc::new(WakeCount(AtomicUsize::new(0)));
    let raw = RawWaker::new(Arc::into_raw(a.clone()) as *const (), &VTABLE);
    (unsafe { Waker::from_raw(raw) }, a)
}

pub fn wakes(a: &Arc<WakeCount>) -> usize {
    a.0.load(Ordering::SeqCst)
}

pub fn ctx(w: &Waker) -> Context<'_> {
    Context::from_waker(w)
}

/// a function value with explicit access declarations (type ids are taken from a fixed pool of marker types)
#[derive(Clone, Debug, PartialEq, Eq)]
pub struct Acc {
    pub id: usize,
    pub reads: Vec<u8>,
    pub writes: Vec<u8>,
}

/// marker types: `Slot<K>` for K in 0..128 (type ids 0..127 of `Acc::reads` / `Acc::writes`)
pub struct Slot<const K: usize>;

macro_rules! slot_ids {
    ($($k:literal)*) => { [$(std::any::TypeId::of::<Slot<$k>>()),*] };
}

fn tid(k: u8) -> std::any::TypeId {
    let table = slot_ids!(0 1 2 3 4 5 6 7 8 9 10 11 12 13 14 15 16 17 18 19 20 21 22 23 24 25 26 27 28 29 30 31
        32 33 34 35 36 37 38 39 40 41 42 43 44 45 46 47 48 49 50 51 52 53 54 55 56 57 58 59 60 61 62 63
        64 65 66 67 68 69 70 71 72 73 74 75 76 77 78 79 80 81 82 83 84 85 86 87 88 89 90 91 92 93 94 95
        96 97 98 99 100 101 102 103 104 105 106 107 108 109 110 111 112 113 114 115 116 117 118 119 120 121 122 123 124 125 126 127);
    table[(k as usize) % 128]
}

#[cfg(not(feature = "fn_meta"))]
impl fn_graph::DataAccessDyn for Acc {
    fn borrows(&self) -> fn_graph::TypeIds {
        self.reads.iter().map(|k| tid(*k)).collect()
    }
    fn borrow_muts(&self) -> fn_graph::TypeIds {
        self.writes.iter().map(|k| tid(*k)).collect()
    }
}

/// with fn_graph's `fn_meta` feature the access lists come from `fn_meta::FnMetaDyn` through fn_graph's blanket impl
#[cfg(feature = "fn_meta")]
impl fn_meta::FnMetaDyn for Acc {
    fn borrows(&self) -> fn_meta::TypeIds {
        self.reads.iter().map(|k| tid(*k)).collect()
    }
    fn borrow_muts(&self) -> fn_meta::TypeIds {
        self.writes.iter().map(|k| tid(*k)).collect()
    }
}

/// Drives a future to completion on this thread: futures' `block_on`, or - with VERIF_EXECUTOR=tokio - a tokio
/// current-thread runtime (whose per-task cooperative budget applies to every tokio primitive polled inside).
pub fn block_on<F: std::future::Future>(f: F) -> F::Output {
    if std::env::var("VERIF_EXECUTOR").as_deref() == Ok("tokio") {
        tokio::runtime::Builder::new_current_thread().build().expect("tokio runtime").block_on(f)
    } else {
        futures::executor::block_on(f)
    }
}

/// CPU seconds (user + system) this process has consumed so far (/proc/self/stat, 100 ticks per second)
pub fn cpu_secs() -> f64 {
    let s = std::fs::read_to_string("/proc/self/stat").unwrap_or_default();
    // the fields after the command name (which may contain spaces) start after the last ')'
    let rest = s.rsplit(')').next().unwrap_or("");
    let f: Vec<&str> = rest.split_whitespace().collect();
    let ut: f64 = f.get(11).and_then(|x| x.parse().ok()).unwrap_or(0.0);
    let st: f64 = f.get(12).and_then(|x| x.parse().ok()).unwrap_or(0.0);
    (ut + st) / 100.0
}

/// Watchdog for a worker thread that either finishes or is STUCK (parked on a future nobody will wake): waits for the
/// message at least `min_secs`; after that it gives up (None) only when the process has been idle - less than 0.05 CPU
/// seconds in each of two consecutive 3 s windows - so a slow run on a loaded machine is not mistaken for a hang.
/// A worker that burns CPU forever is cut off after `cap_secs`.
pub fn recv_unless_idle<T>(rx: &std::sync::mpsc::Receiver<T>, min_secs: u64, cap_secs: u64) -> Option<T> {
    let t0 = std::time::Instant::now();
    if let Ok(x) = rx.recv_timeout(std::time::Duration::from_secs(min_secs)) { return Some(x); }
    let mut idle_windows = 0;
    loop {
        let c0 = cpu_secs();
        if let Ok(x) = rx.recv_timeout(std::time::Duration::from_secs(3)) { return Some(x); }
        if cpu_secs() - c0 < 0.05 { idle_windows += 1; } else { idle_windows = 0; }
        if idle_windows >= 2 || t0.elapsed().as_secs() > cap_secs { return None; }
    }
}
