//! Replay helpers: drive the REAL crate with a counting waker (no runtime), build small graphs.
use std::sync::atomic::{AtomicUsize, Ordering};
use std::sync::Arc;
use std::task::{Context, RawWaker, RawWakerVTable, Waker};

pub struct WakeCount(pub AtomicUsize);

fn vt_clone(p: *const ()) -> RawWaker {
    let a = unsafe { Arc::from_raw(p as *const WakeCount) };
    let b = a.clone();
    std::mem::forget(a);
    RawWaker::new(Arc::into_raw(b) as *const (), &VTABLE)
}
fn vt_wake(p: *const ()) {
    let a = unsafe { Arc::from_raw(p as *const WakeCount) };
    a.0.fetch_add(1, Ordering::SeqCst);
}
fn vt_wake_by_ref(p: *const ()) {
    let a = unsafe { Arc::from_raw(p as *const WakeCount) };
    a.0.fetch_add(1, Ordering::SeqCst);
    std::mem::forget(a);
}
fn vt_drop(p: *const ()) {
    unsafe { drop(Arc::from_raw(p as *const WakeCount)) };
}
static VTABLE: RawWakerVTable = RawWakerVTable::new(vt_clone, vt_wake, vt_wake_by_ref, vt_drop);

pub fn counting_waker() -> (Waker, Arc<WakeCount>) {
    let a = Arc::new(WakeCount(AtomicUsize::new(0)));
    let raw = RawWaker::new(Arc::into_raw(a.clone()) as *const (), &VTABLE);
    (unsafe { Waker::from_raw(raw) }, a)
}

pub fn wakes(a: &Arc<WakeCount>) -> usize {
    a.0.load(Ordering::SeqCst)
}

pub fn ctx(w: &Waker) -> Context<'_> {
    Context::from_waker(w)
}

/// a function value with explicit access declarations (type ids are taken from a fixed pool of marker types)
#[derive(Clone, Debug, PartialEq, Eq)]
pub struct Acc {
    pub id: usize,
    pub reads: Vec<u8>,
    pub writes: Vec<u8>,
}

pub struct T0;
pub struct T1;
pub struct T2;

fn tid(k: u8) -> std::any::TypeId {
    match k {
        0 => std::any::TypeId::of::<T0>(),
        1 => std::any::TypeId::of::<T1>(),
        _ => std::any::TypeId::of::<T2>(),
    }
}

impl fn_graph::DataAccessDyn for Acc {
    fn borrows(&self) -> fn_graph::TypeIds {
        self.reads.iter().map(|k| tid(*k)).collect()
    }
    fn borrow_muts(&self) -> fn_graph::TypeIds {
        self.writes.iter().map(|k| tid(*k)).collect()
    }
}
