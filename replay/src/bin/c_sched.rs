//! Bounded native search over SCHEDULES of the real crate with a hand-driven executor (replay / fallback only;
//! never counted as proof). Every user future waits on a gate that only the driver opens, so the driver sees every
//! QUIESCENT point (main future Pending, no wake-up outstanding) and decides which running function returns next.
//! Oracles, from the property statements:
//!   C06  (limit None) at every quiescent point every function whose predecessors in the built graph have all
//!        returned has been started; C04 a quiescent point with nothing running and the call not finished is a hang;
//!   C10  never more than `limit` user futures in flight (limit >= 1); any limit >= 1 still completes;
//!   C01/C02/C03 on every run (conflicts never overlap, predecessors first, at most once / exactly once);
//!   C20  two runs on one graph driven interleaved: each satisfies the single-run oracles and completes;
//!   C15  a run on a graph that was used before (completed / dropped midway, forward / reverse) has the same trace
//!        as the same run (same driver decisions) on a freshly built graph.
//! usage: c_sched [C01|C02|C03|C04|C06|C10|C15|C20|all]
use fn_graph::{FnGraph, FnGraphBuilder, FnId, StreamOpts};
use fn_graph_replay::*;
use std::cell::{Cell, RefCell};
use std::future::Future;
use std::pin::Pin;
use std::rc::Rc;
use std::task::{Context, Poll, Waker};

/// the drivers' source of choices: pseudo-random, or - in the exhaustive mode - a script that is replayed and then extended with
/// 0s while every choice point and its number of alternatives is logged, so that the caller can enumerate all choice sequences
struct Lcg(u64);
thread_local! {
    static SCRIPT: RefCell<Option<Vec<u64>>> = const { RefCell::new(None) };
    static CHOICES: RefCell<Vec<(u64, u64)>> = const { RefCell::new(Vec::new()) };
}
impl Lcg {
    fn next(&mut self) -> u64 { self.0 = self.0.wrapping_mul(6364136223846793005).wrapping_add(1442695040888963407); self.0 >> 33 }
    fn below(&mut self, n: u64) -> u64 {
        let scripted = SCRIPT.with(|s| s.borrow().is_some());
        if !scripted { return self.next() % n; }
        let k = CHOICES.with(|c| c.borrow().len());
        let v = SCRIPT.with(|s| s.borrow().as_ref().unwrap().get(k).copied().unwrap_or(0)) % n;
        CHOICES.with(|c| c.borrow_mut().push((v, n)));
        v
    }
}
/// the next choice sequence in depth-first order after the one just logged, or None when all are done
fn next_script() -> Option<Vec<u64>> {
    let mut log = CHOICES.with(|c| std::mem::take(&mut *c.borrow_mut()));
    while let Some((v, n)) = log.pop() {
        if v + 1 < n { let mut s: Vec<u64> = log.iter().map(|x| x.0).collect(); s.push(v + 1); return Some(s); }
    }
    None
}

#[derive(Clone, Debug, PartialEq)]
enum Ev { Start(usize), End(usize) }

#[derive(Default)]
struct GateSt { open: Cell<bool>, waker: RefCell<Option<Waker>> }
struct Gate(Rc<GateSt>);
impl Future for Gate {
    type Output = ();
    fn poll(self: Pin<&mut Self>, cx: &mut Context<'_>) -> Poll<()> {
        if self.0.open.get() { Poll::Ready(()) } else { *self.0.waker.borrow_mut() = Some(cx.waker().clone()); Poll::Pending }
    }
}

/// what one run shares with the driver
#[derive(Default)]
struct RunSt { trace: RefCell<Vec<Ev>>, gates: RefCell<Vec<(usize, Rc<GateSt>)>> }
impl RunSt {
    fn start(&self, id: usize) -> Gate {
        self.trace.borrow_mut().push(Ev::Start(id));
        let g = Rc::new(GateSt::default());
        self.gates.borrow_mut().push((id, g.clone()));
        Gate(g)
    }
    fn running(&self) -> Vec<usize> { self.gates.borrow().iter().map(|(i, _)| *i).collect() }
    /// lets the k-th running function return
    fn release(&self, k: usize) {
        let (_, g) = self.gates.borrow_mut().remove(k);
        g.open.set(true);
        let w = g.waker.borrow_mut().take();
        if let Some(w) = w { w.wake(); }
    }
}

#[derive(Clone)]
struct Case { n: usize, accs: Vec<Acc>, edges: Vec<(usize, usize)>, desc: String }

fn build(c: &Case) -> FnGraph<Acc> {
    let mut b = FnGraphBuilder::new();
    let ids: Vec<FnId> = c.accs.iter().cloned().map(|a| b.add_fn(a)).collect();
    for &(x, y) in &c.edges { b.add_logic_edge(ids[x], ids[y]).unwrap(); }
    let g = b.build();
    // every other graph handed to the drivers is a `clone()` of the built one (the original is dropped): a copy must run like the original
    if BUILDS.fetch_add(1, std::sync::atomic::Ordering::Relaxed) % 2 == 1 { g.clone() } else { g }
}
static BUILDS: std::sync::atomic::AtomicUsize = std::sync::atomic::AtomicUsize::new(0);
static RUNS: std::sync::atomic::AtomicUsize = std::sync::atomic::AtomicUsize::new(0);
thread_local! { static FORCE_FRESH: std::cell::Cell<Option<bool>> = const { std::cell::Cell::new(None) }; }

fn conflict(a: &Acc, b: &Acc) -> bool {
    a.reads.iter().any(|t| b.writes.contains(t)) || a.writes.iter().any(|t| b.reads.contains(t)) || a.writes.iter().any(|t| b.writes.contains(t))
}

fn built_edges(g: &FnGraph<Acc>, reverse: bool) -> Vec<(usize, usize)> {
    g.graph.raw_edges().iter().map(|e| if reverse { (e.target().index(), e.source().index()) } else { (e.source().index(), e.target().index()) }).collect()
}

#[derive(Clone, Copy, Debug, PartialEq)]
enum Api { ForEach, TryForEach, Stream }

type Fut<'a> = Pin<Box<dyn Future<Output = ()> + 'a>>;

/// the main future of one run; the user futures record Start at creation and End when their gate was opened
fn make_run<'a>(g: &'a FnGraph<Acc>, api: Api, reverse: bool, limit: Option<usize>, st: Rc<RunSt>) -> Fut<'a> {
    let opts = if reverse { StreamOpts::new().rev() } else { StreamOpts::new() };
    match api {
        Api::ForEach => Box::pin(async move {
            let s2 = st.clone();
            g.for_each_concurrent_with(limit, opts, move |f: &Acc| { let (s, id) = (s2.clone(), f.id); let gate = s.start(id); async move { gate.await; s.trace.borrow_mut().push(Ev::End(id)); } }).await;
        }),
        Api::TryForEach => Box::pin(async move {
            let s2 = st.clone();
            let _ = g.try_for_each_concurrent_with(limit, opts, move |f: &Acc| { let (s, id) = (s2.clone(), f.id); let gate = s.start(id); async move { gate.await; s.trace.borrow_mut().push(Ev::End(id)); Ok::<(), ()>(()) } }).await;
        }),
        Api::Stream => Box::pin(async move {
            // every yielded FnRef is held by a task of its own until the driver opens its gate
            use futures::stream::StreamExt;
            let s2 = st.clone();
            g.stream_with(opts).for_each_concurrent(None, move |r| { let (s, id) = (s2.clone(), r.id); let gate = s.start(id); async move { gate.await; s.trace.borrow_mut().push(Ev::End(id)); drop(r); } }).await;
        }),
    }
}

/// single-run oracles on a (possibly partial) trace
fn check_trace(which: &str, c: &Case, edges: &[(usize, usize)], tr: &[Ev], complete: bool, label: &str) -> Result<(), String> {
    let on = |p: &str| which == p || which == "all";
    let n = c.n;
    let mut started = vec![0usize; n];
    let mut ended = vec![false; n];
    for ev in tr {
        match *ev {
            Ev::Start(i) => {
                started[i] += 1;
                if started[i] > 1 && on("C03") { return Err(format!("C03: function {i} started twice ({label}; {}) trace={tr:?}", c.desc)); }
                for &(a, b) in edges { if b == i && !ended[a] && (on("C02") || on("C01")) { return Err(format!("C02: function {i} started before its predecessor {a} returned ({label}; {}) trace={tr:?}", c.desc)); } }
                for j in 0..n { if j != i && started[j] > 0 && !ended[j] && conflict(&c.accs[i], &c.accs[j]) && on("C01") { return Err(format!("C01: conflicting functions {i} and {j} in flight together ({label}; {}) trace={tr:?}", c.desc)); } }
            }
            Ev::End(i) => ended[i] = true,
        }
    }
    if complete && on("C03") { for i in 0..n { if started[i] != 1 { return Err(format!("C03: clean run, function {i} started {} times ({label}; {}) trace={tr:?}", started[i], c.desc)); } } }
    Ok(())
}

struct Run<'a> { fresh_wakers: bool, panicked: bool, fut: Option<Fut<'a>>, st: Rc<RunSt>, waker: Waker, cnt: std::sync::Arc<WakeCount>, seen: usize, edges: Vec<(usize, usize)>, limit: Option<usize>, label: String }

/// polls the run until it is done or quiescent (Pending with no wake-up since the poll began); true when done
fn settle(r: &mut Run<'_>) -> bool {
    loop {
        let Some(f) = r.fut.as_mut() else { return true };
        // every other run is polled with a FRESH waker each time (an executor may do that: select!, poll!, moving a future between
        // tasks): a wake-up counts only if it reaches the waker of the most recent poll, as the Future contract requires
        if r.fresh_wakers { let (w, c) = counting_waker(); r.waker = w; r.cnt = c; }
        r.seen = wakes(&r.cnt);
        let mut cx = ctx(&r.waker);
        // a panic inside the run (e.g. a counter underflow) ends it: what happened before is still judged by the caller
        let polled = std::panic::catch_unwind(std::panic::AssertUnwindSafe(|| f.as_mut().poll(&mut cx)));
        match polled {
            Ok(Poll::Ready(())) => { r.fut = None; return true; }
            Ok(Poll::Pending) => if wakes(&r.cnt) == r.seen { return false; },
            Err(_) => { r.fut = None; r.panicked = true; return true; }
        }
    }
}

/// oracles that need the quiescent point itself
fn check_quiescent(which: &str, c: &Case, r: &Run<'_>) -> Result<(), String> {
    let on = |p: &str| which == p || which == "all";
    let tr = r.st.trace.borrow();
    let running = r.st.running();
    if let Some(l) = r.limit { if l >= 1 && running.len() > l && on("C10") { return Err(format!("C10: {} user futures in flight {running:?} with limit {l} ({}; {}) trace={:?}", running.len(), r.label, c.desc, *tr)); } }
    let mut started = vec![false; c.n];
    let mut ended = vec![false; c.n];
    for ev in tr.iter() { match *ev { Ev::Start(i) => started[i] = true, Ev::End(i) => ended[i] = true } }
    if r.limit.is_none() || r.limit == Some(0) {
        for i in 0..c.n {
            // (C10: a limit of None or 0 means unbounded - the same observation judged under C10)
            if !started[i] && r.edges.iter().all(|&(a, b)| b != i || ended[a]) && (on("C06") || on("C10") || (running.is_empty() && on("C04"))) {
                return Err(format!("{}: the call is idle (Pending, no wake-up outstanding) yet function {i} has not been started although all of its predecessors returned{}; running={running:?} ({}; {}) trace={:?}", if which == "C10" { "C10" } else if on("C06") { "C06" } else { "C04" }, if which == "C10" { " and the limit is None / 0, i.e. unbounded" } else { "" }, r.label, c.desc, *tr));
            }
        }
    }
    if running.is_empty() && (on("C04") || on("C10")) {
        return Err(format!("{}: the call is Pending with nothing running and no wake-up outstanding: it never completes ({}; {}) trace={:?}", if on("C04") { "C04" } else { "C10" }, r.label, c.desc, *tr));
    }
    if running.is_empty() && on("C03") {
        let never: Vec<usize> = (0..c.n).filter(|&i| !started[i]).collect();
        if !never.is_empty() {
            return Err(format!("C03: clean run (no interruption, no failure) that can make no further progress - nothing running, no wake-up outstanding - with functions {never:?} never handed out: it cannot return / end having handed out every function exactly once ({}; {}) trace={:?}", r.label, c.desc, *tr));
        }
    }
    Ok(())
}

/// drives the runs interleaved to completion; `stop_after` = number of releases after which everything is dropped
fn drive(which: &str, c: &Case, runs: &mut [Run<'_>], rng: &mut Lcg, stop_after: Option<usize>) -> Result<(), String> {
    let mut releases = 0usize;
    loop {
        let mut all_done = true;
        for r in runs.iter_mut() { if !settle(r) { all_done = false; } }
        // a release in one run cannot wake another one, but settle again until nothing moves
        if all_done { break; }
        for r in runs.iter() {
            if r.fut.is_some() {
                // large graphs: the partial trace is only judged at the end (the quiescent-point oracles still run)
                if c.n <= 50 { check_trace(which, c, &r.edges, &r.st.trace.borrow(), false, &r.label)?; }
                check_quiescent(which, c, r)?;
            }
        }
        if stop_after == Some(releases) { return Ok(()); }
        let live: Vec<usize> = (0..runs.len()).filter(|&k| runs[k].fut.is_some() && !runs[k].st.running().is_empty()).collect();
        if live.is_empty() { return Ok(()); } // reported by check_quiescent when the oracle is on
        // one to three running functions return before the call is polled again (several completions per poll)
        let burst = 1 + rng.below(3) as usize;
        for _ in 0..burst {
            let live: Vec<usize> = (0..runs.len()).filter(|&k| runs[k].fut.is_some() && !runs[k].st.running().is_empty()).collect();
            if live.is_empty() { break; }
            let k = live[rng.below(live.len() as u64) as usize];
            let m = runs[k].st.running().len();
            runs[k].st.release(rng.below(m as u64) as usize);
            releases += 1;
            if stop_after == Some(releases) { break; }
        }
        if releases > 10_000 { return Err(format!("C04: no end after 10000 completions ({})", c.desc)); }
    }
    for r in runs.iter() {
        // a run that panicked is judged on the trace up to the panic (not as a clean run); the panic itself is a C04 matter
        check_trace(which, c, &r.edges, &r.st.trace.borrow(), !r.panicked, &r.label)?;
        if r.panicked && (which == "C04" || which == "all") { return Err(format!("C04: panic inside the run ({}; {}) trace={:?}", r.label, c.desc, r.st.trace.borrow())); }
    }
    Ok(())
}

/// a run through one of the ten entry points that borrow the graph exclusively (used for the C15 histories);
/// the entry points without options always run forward
const MUT_VARIANTS: usize = 10;
fn new_run_mut<'a>(g: &'a mut FnGraph<Acc>, reverse: bool, variant: usize, tag: &str) -> Run<'a> {
    use futures::FutureExt;
    let st = Rc::new(RunSt::default());
    let (waker, cnt) = counting_waker();
    let with_opts = variant % 2 == 1;
    let reverse = reverse && with_opts;
    let edges = built_edges(g, reverse);
    let opts = if reverse { StreamOpts::new().rev() } else { StreamOpts::new() };
    let s2 = st.clone();
    let name = ["for_each_concurrent_mut", "for_each_concurrent_mut_with", "try_for_each_concurrent_mut", "try_for_each_concurrent_mut_with", "try_for_each_concurrent_control_mut",
                "try_for_each_concurrent_control_mut_with", "fold_async_mut", "fold_async_mut_with", "try_fold_async_mut", "try_fold_async_mut_with"][variant % MUT_VARIANTS];
    let fut: Fut<'a> = Box::pin(async move {
        let s3 = s2.clone();
        let body = move |f: &mut Acc| { let (s, id) = (s3.clone(), f.id); let gate = s.start(id); async move { gate.await; s.trace.borrow_mut().push(Ev::End(id)); } };
        match variant % MUT_VARIANTS {
            0 => { g.for_each_concurrent_mut(None, body).await; }
            1 => { g.for_each_concurrent_mut_with(None, opts, body).await; }
            2 => { let _ = g.try_for_each_concurrent_mut(None, move |f: &mut Acc| { let fu = body(f); async move { fu.await; Ok::<(), ()>(()) } }).await; }
            3 => { let _ = g.try_for_each_concurrent_mut_with(None, opts, move |f: &mut Acc| { let fu = body(f); async move { fu.await; Ok::<(), ()>(()) } }).await; }
            4 => { let _ = g.try_for_each_concurrent_control_mut(None, move |f: &mut Acc| { let fu = body(f); async move { fu.await; std::ops::ControlFlow::<(), ()>::Continue(()) } }).await; }
            5 => { let _ = g.try_for_each_concurrent_control_mut_with(None, opts, move |f: &mut Acc| { let fu = body(f); async move { fu.await; std::ops::ControlFlow::<(), ()>::Continue(()) } }).await; }
            6 => { g.fold_async_mut((), move |(), mut f| { let fu = body(&mut *f); async move { fu.await; }.boxed_local() }).await; }
            7 => { g.fold_async_mut_with((), opts, move |(), mut f| { let fu = body(&mut *f); async move { fu.await; }.boxed_local() }).await; }
            8 => { let _ = g.try_fold_async_mut((), move |(), mut f| { let fu = body(&mut *f); async move { fu.await; Ok::<(), ()>(()) }.boxed_local() }).await; }
            _ => { let _ = g.try_fold_async_mut_with((), opts, move |(), mut f| { let fu = body(&mut *f); async move { fu.await; Ok::<(), ()>(()) }.boxed_local() }).await; }
        }
    });
    Run { fresh_wakers: FORCE_FRESH.with(|f| f.get()).unwrap_or_else(|| RUNS.fetch_add(1, std::sync::atomic::Ordering::Relaxed) % 2 == 1), panicked: false, fut: Some(fut), st, waker, cnt, seen: 0, edges, limit: None, label: format!("{tag}{name}(reverse={reverse})") }
}

fn new_run<'a>(g: &'a FnGraph<Acc>, api: Api, reverse: bool, limit: Option<usize>, tag: &str) -> Run<'a> {
    let st = Rc::new(RunSt::default());
    let (waker, cnt) = counting_waker();
    Run { fresh_wakers: FORCE_FRESH.with(|f| f.get()).unwrap_or_else(|| RUNS.fetch_add(1, std::sync::atomic::Ordering::Relaxed) % 2 == 1), panicked: false, fut: Some(make_run(g, api, reverse, limit, st.clone())), st, waker, cnt, seen: 0, edges: built_edges(g, reverse), limit, label: format!("{tag}{api:?}(limit={limit:?}, reverse={reverse})") }
}

fn run_case(which: &'static str, c: &Case, seed: u64) -> Result<(), String> {
    let on = |p: &str| which == p || which == "all";
    let apis = [Api::ForEach, Api::TryForEach, Api::Stream];
    // ---- single runs: every API x direction x limit x 2 driver seeds
    if on("C01") || on("C02") || on("C03") || on("C04") || on("C06") || on("C10") {
        let big = c.n > 50;
        for api in apis { for reverse in [false, true] { for limit in [None, Some(0usize), Some(1), Some(2), Some(3)] {
            if api == Api::Stream && limit.is_some() { continue; }
            if limit.is_some() && limit != Some(0) && !(on("C10") || on("C04")) { continue; }
            if big && (api == Api::TryForEach || matches!(limit, Some(0) | Some(1) | Some(3))) { continue; }
            for ds in 0..(if big { 1 } else { 2u64 }) {
                let g = build(c);
                let mut rng = Lcg(seed ^ (ds * 7919 + 13));
                let mut runs = [new_run(&g, api, reverse, limit, "")];
                drive(which, c, &mut runs, &mut rng, None)?;
            }
        } } }
    }
    // ---- C20: two runs on one graph, interleaved
    if on("C20") && c.n <= 50 {
        for (a1, a2) in [(Api::ForEach, Api::ForEach), (Api::ForEach, Api::Stream), (Api::TryForEach, Api::ForEach), (Api::Stream, Api::Stream)] {
            for (r1, r2) in [(false, false), (false, true), (true, true)] {
                let g = build(c);
                let mut rng = Lcg(seed ^ 0xc20);
                let mut runs = [new_run(&g, a1, r1, None, "run 1 of 2: "), new_run(&g, a2, r2, None, "run 2 of 2: ")];
                let w = if which == "C20" { "all" } else { which };
                drive(w, c, &mut runs, &mut rng, None).map_err(|e| format!("C20: with two simultaneous runs on one graph, one of them violates {e}"))?;
            }
        }
    }
    // ---- C15: history of earlier runs, then the same run on the reused and on a fresh graph
    if on("C15") && (c.n <= 50 || c.desc.starts_with("C15-large")) {
        let large = c.n > 50;
        for api in apis { for reverse in [false, true] {
            if large && api == Api::TryForEach { continue; }
            let huge = c.n >= 8000;
            if huge && (api != Api::ForEach || reverse) { continue; }
            // (api, reverse, dropped after k completions, Some(v) = through the v-th entry point that borrows the graph exclusively)
            let mut hists: Vec<Vec<(Api, bool, Option<usize>, Option<usize>)>> = vec![vec![(Api::ForEach, false, None, None)], vec![(Api::ForEach, true, None, None)], vec![(Api::Stream, false, Some(1usize), None)], vec![(Api::TryForEach, true, Some(0usize), None)],
                         vec![(Api::Stream, true, None, None), (Api::ForEach, false, Some(2usize), None)]];
            // large graphs (state that is only kept beyond some size): a few mixed-order histories only
            if large { hists = vec![vec![(Api::ForEach, false, None, None)], vec![(Api::ForEach, true, None, None)], vec![(Api::Stream, false, Some(3usize), None)], vec![(Api::Stream, true, Some(3usize), None), (Api::ForEach, false, None, None)]]; }
            // graphs of thousands of functions: only `an exclusive entry point dropped after its first poll, then a run`
            if huge { hists = (0..MUT_VARIANTS).map(|v| vec![(Api::ForEach, false, Some(0usize), Some(v))]).collect(); }
            for v in 0..(if large { 0 } else { MUT_VARIANTS }) {
                // every exclusive entry point: dropped at once, dropped after one completion (reverse where it takes options), run to the end
                hists.push(vec![(Api::ForEach, false, Some(0usize), Some(v))]);
                hists.push(vec![(Api::ForEach, true, Some(1usize), Some(v))]);
                if v < 2 || api == Api::ForEach { hists.push(vec![(Api::ForEach, false, None, Some(v))]); }
            }
            for hist in hists {
                let mut g = build(c);
                for (k, &(ha, hr, stop, exclusive)) in hist.iter().enumerate() {
                    let mut rng = Lcg(seed ^ (0xc15 + k as u64));
                    if let Some(v) = exclusive {
                        let mut runs = [new_run_mut(&mut g, hr, v, "earlier run: ")];
                        let _ = drive("none", c, &mut runs, &mut rng, stop);
                    } else {
                        let mut runs = [new_run(&g, ha, hr, None, "earlier run: ")];
                        let _ = drive("none", c, &mut runs, &mut rng, stop);
                    }
                    // runs (incl. the unfinished future / stream and its held FnRefs) are dropped here
                }
                let final_trace = |g: &FnGraph<Acc>| -> (Vec<Ev>, Result<(), String>) {
                    let mut rng = Lcg(seed ^ 0xf15);
                    let mut runs = [new_run(g, api, reverse, None, "run on a reused graph: ")];
                    let r = drive("all", c, &mut runs, &mut rng, None);
                    let t = runs[0].st.trace.borrow().clone();
                    (t, r)
                };
                let (t_reused, r_reused) = final_trace(&g);
                let fresh = build(c);
                let (t_fresh, _) = final_trace(&fresh);
                if t_reused != t_fresh || r_reused.is_err() {
                    return Err(format!("C15: after the history {hist:?} (api, reverse, dropped after k completions, exclusive entry point) the run {api:?}(reverse={reverse}) on the reused graph gives trace {t_reused:?}{} but on a fresh graph {t_fresh:?} ({})", r_reused.err().map(|e| format!(" [{e}]")).unwrap_or_default(), c.desc));
                }
            }
        } }
    }
    Ok(())
}

/// EXHAUSTIVE mode (still a bounded check): every DAG on up to 4 functions (edges from lower to higher id; the reverse runs
/// cover the other orientation), every API, both directions, limits None / 1 / 2, both waker disciplines (one waker per run / a fresh one per poll), and EVERY sequence of driver choices - how many
/// functions return before the next poll (1..3) and which ones. With access declarations (none / read / write of one type per
/// function) up to 3 functions. All single-run oracles at every quiescent point.
fn exhaustive(which: &'static str) {
    let on = |p: &str| which == p || which == "all";
    let mut runs_total = 0u64;
    let mut graphs = 0u64;
    let max_n: usize = std::env::var("VERIF_EXHAUSTIVE_N").ok().and_then(|s| s.parse().ok()).unwrap_or(4);
    for n in 0..=max_n {
        let pairs: Vec<(usize, usize)> = (0..n).flat_map(|i| ((i + 1)..n).map(move |j| (i, j))).collect();
        let access_combos: u32 = if n <= 3 && (on("C01") || which == "all") { 3u32.pow(n as u32) } else { 1 };
        for mask in 0..(1u32 << pairs.len()) {
            let edges: Vec<(usize, usize)> = pairs.iter().enumerate().filter(|(k, _)| mask >> k & 1 == 1).map(|(_, &e)| e).collect();
            for ac in 0..access_combos {
                let accs: Vec<Acc> = (0..n).map(|i| match (ac / 3u32.pow(i as u32)) % 3 { 0 => Acc { id: i, reads: vec![], writes: vec![] }, 1 => Acc { id: i, reads: vec![0], writes: vec![] }, _ => Acc { id: i, reads: vec![], writes: vec![0] } }).collect();
                let c = Case { n, accs, edges: edges.clone(), desc: format!("exhaustive: n={n} edges={edges:?} access code {ac} (base 3 per function: 0 none, 1 reads type 0, 2 writes type 0)") };
                graphs += 1;
                for fresh in [false, true] { for api in [Api::ForEach, Api::TryForEach, Api::Stream] { for reverse in [false, true] { for limit in [None, Some(1usize), Some(2)] {
                    // both waker disciplines: one waker for the whole run / a fresh waker at every poll
                    FORCE_FRESH.with(|f| f.set(Some(fresh)));
                    if api == Api::Stream && limit.is_some() { continue; }
                    if limit.is_some() && !(on("C10") || on("C04")) { continue; }
                    SCRIPT.with(|s| *s.borrow_mut() = Some(vec![]));
                    CHOICES.with(|c| c.borrow_mut().clear());
                    loop {
                        let g = build(&c);
                        let mut rng = Lcg(0);
                        let mut runs = [new_run(&g, api, reverse, limit, "")];
                        let r = drive(which, &c, &mut runs, &mut rng, None);
                        runs_total += 1;
                        if let Err(e) = r {
                            let script = CHOICES.with(|c| c.borrow().iter().map(|x| x.0).collect::<Vec<_>>());
                            println!("VIOLATION {e} [exhaustive mode, driver choices {script:?}]");
                            std::process::exit(1);
                        }
                        drop(runs);
                        match next_script() { Some(sc) => SCRIPT.with(|s| *s.borrow_mut() = Some(sc)), None => break }
                    }
                    SCRIPT.with(|s| *s.borrow_mut() = None);
                } } } }
                FORCE_FRESH.with(|f| f.set(None));
            }
        }
    }
    println!("OK c_sched exhaustive: {which} oracles hold on ALL {runs_total} schedules of {graphs} graphs with up to {max_n} functions (bounded: n <= {max_n}, bursts of 1..3 completions per poll)");
}

fn main() {
    if std::env::args().any(|a| a == "--exhaustive") {
        let which: &'static str = match std::env::args().nth(1).as_deref() { Some("C01") => "C01", Some("C02") => "C02", Some("C03") => "C03", Some("C04") => "C04", Some("C06") => "C06", Some("C10") => "C10", _ => "all" };
        exhaustive(which);
        return;
    }
    let which: &'static str = match std::env::args().nth(1).as_deref() { Some("C01") => "C01", Some("C02") => "C02", Some("C03") => "C03", Some("C04") => "C04", Some("C06") => "C06", Some("C10") => "C10", Some("C15") => "C15", Some("C20") => "C20", _ => "all" };
    let seed = std::env::var("VERIF_SEED").ok().and_then(|s| s.parse().ok()).unwrap_or(1u64);
    let mut rng = Lcg(seed.wrapping_mul(2246822519) + 17);
    let plain = |n: usize| (0..n).map(|i| Acc { id: i, reads: vec![], writes: vec![] }).collect::<Vec<_>>();
    let mut cases = vec![
        Case { n: 0, accs: vec![], edges: vec![], desc: "empty graph".into() },
        Case { n: 3, accs: plain(3), edges: vec![(1, 2)], desc: "two roots, the second one has a child of its own: 0, 1 -> 2".into() },
        Case { n: 4, accs: plain(4), edges: vec![(1, 2), (1, 3)], desc: "roots a(0), b(1); b -> c(2), b -> d(3)".into() },
        Case { n: 3, accs: plain(3), edges: vec![(0, 2), (1, 2)], desc: "a(0) -> c(2) <- b(1)".into() },
        Case { n: 5, accs: plain(5), edges: vec![(0, 1), (0, 2), (1, 3), (2, 3)], desc: "diamond a->b,c->d plus isolated e".into() },
        Case { n: 6, accs: plain(6), edges: vec![(0, 2), (0, 3), (1, 4), (1, 5)], desc: "two roots with two successors each".into() },
        Case { n: 13, accs: plain(13), edges: vec![(0, 1), (0, 2), (0, 3), (1, 4), (1, 5), (1, 6), (2, 7), (2, 8), (2, 9), (3, 10), (3, 11), (3, 12)], desc: "two-level fan-out: root, 3 children, 3 leaves each".into() },
    ];
    // histories on larger graphs (C15): mostly independent functions, so that the order in which ready functions are handed out is visible
    cases.push(Case { n: 70, accs: plain(70), edges: vec![(0, 69)], desc: "C15-large: 70 functions, one edge 0 -> 69".into() });
    cases.push(Case { n: 140, accs: plain(140), edges: vec![(0, 139), (5, 70), (70, 71)], desc: "C15-large: 140 functions, edges 0 -> 139, 5 -> 70 -> 71".into() });
    if which == "C15" { cases.push(Case { n: 9000, accs: plain(9000), edges: vec![(0, 8999)], desc: "C15-large: 9000 functions, one edge 0 -> 8999".into() }); }
    // large fan-in / fan-out (effects of narrow counters and budgets only show beyond 255 direct predecessors)
    cases.push(Case { n: 301, accs: plain(301), edges: (0..300).map(|i| (i, 300)).collect(), desc: "fan-in: 300 functions -> 1 sink".into() });
    cases.push(Case { n: 301, accs: plain(301), edges: (1..301).map(|i| (0, i)).collect(), desc: "fan-out: 1 root -> 300 functions".into() });
    for round in 0..300 {
        let n = 1 + rng.below(6) as usize;
        let mut label: Vec<usize> = (0..n).collect();
        for i in (1..n).rev() { let j = rng.below(i as u64 + 1) as usize; label.swap(i, j); }
        let accs: Vec<Acc> = (0..n).map(|i| { let mut reads = vec![]; let mut writes = vec![]; for t in 0..3u8 { match rng.below(6) { 0 => reads.push(t), 1 => writes.push(t), _ => {} } } Acc { id: i, reads, writes } }).collect();
        let mut edges = vec![];
        for i in 0..n { for j in (i + 1)..n { if rng.below(100) < 25 { edges.push((label[i], label[j])); } } }
        let desc = format!("random #{round}: n={n} accesses={:?} logic edges={edges:?}", accs.iter().map(|a| (a.reads.clone(), a.writes.clone())).collect::<Vec<_>>());
        cases.push(Case { n, accs, edges, desc });
    }
    let total = cases.len();
    for (k, c) in cases.iter().enumerate() {
        let cc = c.clone();
        let (tx, rx) = std::sync::mpsc::channel();
        let h = std::thread::spawn(move || { let r = std::panic::catch_unwind(std::panic::AssertUnwindSafe(|| run_case(which, &cc, seed.wrapping_add(k as u64)))); let _ = tx.send(()); r });
        let r = match recv_unless_idle(&rx, 60, 1800) {
            Some(()) => match h.join().unwrap() { Ok(r) => r, Err(_) => if which == "C04" || which == "all" || which == "C20" || which == "C15" { Err(format!("{}: panic while driving {}", if which == "all" { "C04" } else { which }, c.desc)) } else { Ok(()) } },
            None => Err(format!("C04: driver did not finish on {} (idle for 60 s, or busy for 30 min)", c.desc)),
        };
        if let Err(e) = r { println!("VIOLATION {e}"); std::process::exit(1); }
    }
    println!("OK c_sched: {which} oracles hold on all explored schedules of {total} graphs");
}
