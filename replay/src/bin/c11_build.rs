//! C11/C12/C06 replay: the statement checked on build() for pseudo-random small DAGs with access declarations
//! over 3 data types and shuffled insertion / edge order.
use fn_graph::daggy::petgraph::algo::has_path_connecting;
use fn_graph::{Edge, FnGraphBuilder, FnId};
use fn_graph_replay::*;

struct Lcg(u64);
impl Lcg {
    fn next(&mut self) -> u64 { self.0 = self.0.wrapping_mul(6364136223846793005).wrapping_add(1442695040888963407); self.0 >> 33 }
    fn below(&mut self, n: u64) -> u64 { self.next() % n }
}

fn conflict(a: &Acc, b: &Acc) -> bool {
    a.reads.iter().any(|t| b.writes.contains(t)) || a.writes.iter().any(|t| b.reads.contains(t)) || a.writes.iter().any(|t| b.writes.contains(t))
}

/// C12: every Data edge goes from the lower (rank, insertion index) to the higher
fn direction_rule(g: &fn_graph::FnGraph<Acc>, user_edges: usize, desc: &str) {
    let ranks = g.ranks();
    for e in &g.graph.raw_edges()[user_edges..] {
        let (s, t) = (e.source().index(), e.target().index());
        let ok = ranks[s] < ranks[t] || (ranks[s] == ranks[t] && s < t);
        if !ok {
            println!("VIOLATION (C12: Data edge {s} (rank {}) -> {t} (rank {}) is not directed by (rank, insertion index)): {desc}", ranks[s].0, ranks[t].0);
            std::process::exit(1);
        }
    }
    // C12: no Data edge repeats an ordering implied by the other edges: without it its endpoints must be disconnected
    let raw = g.graph.raw_edges();
    let n = g.graph.node_count();
    let mut adj: Vec<Vec<(usize, usize)>> = vec![vec![]; n];
    for (k, e) in raw.iter().enumerate() { adj[e.source().index()].push((e.target().index(), k)); }
    for (k, e) in raw.iter().enumerate().skip(user_edges) {
        let (s, t) = (e.source().index(), e.target().index());
        let mut seen = vec![false; n];
        let mut st = vec![s];
        while let Some(x) = st.pop() { if seen[x] { continue; } seen[x] = true; for &(y, ek) in &adj[x] { if ek != k { st.push(y); } } }
        if seen[t] { println!("VIOLATION (C12: Data edge {s}->{t} repeats an ordering already implied by the other edges): {desc}"); std::process::exit(1); }
    }
}

/// child mode: build a deep chain on a thread with a small stack (a build whose stack use grows with the depth of the graph
/// overflows it and the process is killed - which only a parent process can observe)
fn deep_chain_child(n: usize, reversed_ids: bool, stack: usize) {
    let h = std::thread::Builder::new().stack_size(stack).spawn(move || {
        let mut b = FnGraphBuilder::new();
        let ids: Vec<FnId> = (0..n).map(|i| b.add_fn(Acc { id: i, reads: vec![], writes: if i == 0 || i == n - 1 { vec![0] } else { vec![] } })).collect();
        // the chain runs from the highest id down to the lowest (last step declared first) or the other way round
        for i in 0..n - 1 { if reversed_ids { b.add_logic_edge(ids[i + 1], ids[i]).unwrap(); } else { b.add_logic_edge(ids[i], ids[i + 1]).unwrap(); } }
        let g = b.build();
        let want: Vec<usize> = (0..n).map(|i| if reversed_ids { n - 1 - i } else { i }).collect();
        if g.ranks().iter().map(|r| r.0).collect::<Vec<_>>() != want { println!("VIOLATION (C11/C13: ranks of a chain of {n} are wrong)"); std::process::exit(1); }
    }).unwrap();
    if h.join().is_err() { println!("VIOLATION (C11: build() of a chain of {n} functions panicked)"); std::process::exit(1); }
}

fn main() {
    let args: Vec<String> = std::env::args().collect();
    if args.len() == 5 && args[1] == "--deep-chain" {
        deep_chain_child(args[2].parse().unwrap(), args[3] == "rev", args[4].parse().unwrap());
        return;
    }
    // deep chains in both id orders, each built in a child process on a 256 KiB thread (Rust's spawned threads default to 2 MiB,
    // other platforms' to less): build() must not need stack in proportion to the depth of the graph
    for (n, order) in [(600usize, "rev"), (600, "fwd")] {
        let out = std::process::Command::new(std::env::current_exe().unwrap()).args(["--deep-chain", &n.to_string(), order, "262144"]).output().expect("child");
        let txt = String::from_utf8_lossy(&out.stdout).to_string() + &String::from_utf8_lossy(&out.stderr);
        if !out.status.success() {
            let why = txt.lines().find(|l| l.contains("VIOLATION") || l.contains("overflowed its stack")).unwrap_or("").to_string();
            println!("VIOLATION (C11: build() is not total): a chain of {n} functions ({order} id order) built on a thread with a 256 KiB stack ended with {:?}: {why}", out.status);
            std::process::exit(1);
        }
    }
    let seed = std::env::var("VERIF_SEED").ok().and_then(|s| s.parse().ok()).unwrap_or(1u64);
    let mut rng = Lcg(seed.wrapping_mul(104729) + 3);
    for round in 0..6000 {
        let n = 1 + rng.below(7) as usize;
        let mut label: Vec<usize> = (0..n).collect();
        for i in (1..n).rev() { let j = rng.below(i as u64 + 1) as usize; label.swap(i, j); }
        let accs: Vec<Acc> = (0..n).map(|i| {
            let mut reads = vec![]; let mut writes = vec![];
            for t in 0..3u8 { match rng.below(5) { 0 => reads.push(t), 1 => writes.push(t), _ => {} } }
            Acc { id: i, reads, writes }
        }).collect();
        let mut es = vec![];
        for i in 0..n { for j in (i + 1)..n { if rng.below(100) < 25 { es.push((label[i], label[j], rng.below(2) == 0)); } } }
        for i in (1..es.len()).rev() { let j = rng.below(i as u64 + 1) as usize; es.swap(i, j); }
        let desc = format!("round {round}: n={n} accesses={:?} user edges(insertion order)={es:?}", accs.iter().map(|a| (a.reads.clone(), a.writes.clone())).collect::<Vec<_>>());
        let mut b = FnGraphBuilder::new();
        let ids: Vec<FnId> = accs.iter().cloned().map(|a| b.add_fn(a)).collect();
        // single-edge and batch forms alternate by round
        for (k, &(x, y, logic)) in es.iter().enumerate() {
            if (round + k) % 2 == 0 {
                if logic { b.add_logic_edge(ids[x], ids[y]).unwrap(); } else { b.add_contains_edge(ids[x], ids[y]).unwrap(); }
            } else {
                if logic { b.add_logic_edges([(ids[x], ids[y])]).unwrap(); } else { b.add_contains_edges([(ids[x], ids[y])]).unwrap(); }
            }
        }
        let res = std::panic::catch_unwind(std::panic::AssertUnwindSafe(|| b.build()));
        let g = match res { Ok(g) => g, Err(_) => { println!("VIOLATION (build panicked): {desc}"); std::process::exit(1); } };
        let dag = &g.graph;
        // functions kept under their ids
        for i in 0..n { if dag[ids[i]] != accs[i] { println!("VIOLATION (function moved): {desc}"); std::process::exit(1); } }
        let raw = dag.raw_edges();
        // user edges kept with kind, in order
        for (k, &(x, y, logic)) in es.iter().enumerate() {
            let e = &raw[k];
            let kind = if logic { Edge::Logic } else { Edge::Contains };
            if e.source() != ids[x] || e.target() != ids[y] || e.weight != kind { println!("VIOLATION (user edge {k} changed): {desc}"); std::process::exit(1); }
        }
        // additional edges: Data, between conflicting functions
        for e in &raw[es.len()..] {
            let (a, c) = (&dag[e.source()], &dag[e.target()]);
            if e.weight != Edge::Data || !conflict(a, c) { println!("VIOLATION (added edge {:?}->{:?} {:?} not a Data edge between conflicting functions): {desc}", e.source().index(), e.target().index(), e.weight); std::process::exit(1); }
        }
        // every conflicting pair joined by a path
        for i in 0..n { for j in (i + 1)..n {
            if conflict(&accs[i], &accs[j]) && !has_path_connecting(dag.graph(), ids[i], ids[j], None) && !has_path_connecting(dag.graph(), ids[j], ids[i], None) {
                println!("VIOLATION (conflicting functions {i} and {j} are not ordered): {desc}"); std::process::exit(1);
            }
        } }
        // acyclic
        if fn_graph::daggy::petgraph::algo::is_cyclic_directed(dag.graph()) { println!("VIOLATION (cycle): {desc}"); std::process::exit(1); }
        direction_rule(&g, es.len(), &desc);
        // C12: no Data edge repeats an ordering implied by the other edges: without it its endpoints are disconnected
        for k in es.len()..raw.len() {
            let (s, t) = (raw[k].source().index(), raw[k].target().index());
            let mut seen = vec![false; n];
            let mut st = vec![s];
            while let Some(x) = st.pop() {
                if seen[x] { continue; }
                seen[x] = true;
                for (m, e) in raw.iter().enumerate() { if m != k && e.source().index() == x { st.push(e.target().index()); } }
            }
            if seen[t] { println!("VIOLATION (C12: Data edge {s}->{t} repeats an ordering already implied by the other edges {:?}): {desc}", raw.iter().map(|e| (e.source().index(), e.target().index())).collect::<Vec<_>>()); std::process::exit(1); }
        }
    }
    // C12 family: many functions writing one type, rank ties, ranks interleaved by insertion index (n > 20 matters for
    // std's unstable sorts)
    for n in [8usize, 21, 24, 32, 48] {
        let mut b = FnGraphBuilder::new();
        let ids: Vec<FnId> = (0..n).map(|i| b.add_fn(Acc { id: i, reads: vec![], writes: vec![0] })).collect();
        let mut k = 0;
        for i in (0..n - 1).step_by(3) { b.add_logic_edge(ids[i], ids[i + 1]).unwrap(); k += 1; }
        let g = b.build();
        direction_rule(&g, k, &format!("{n} writers of one type, logic edges i->i+1 for every third i"));
    }
    // access lists of particular shapes: a type named twice in one list (two shared borrows of one resource), and lists of
    // 7 / 8 / 9 / 15 / 16 / 17 types in declaration order and reversed (`TypeIds` keeps 8 inline) - each against one reader or
    // writer of a single type, declared before and after it
    {
        let mut shapes: Vec<(Vec<Acc>, String)> = vec![];
        shapes.push((vec![Acc { id: 0, reads: vec![], writes: vec![9] }, Acc { id: 1, reads: vec![3, 3], writes: vec![] }, Acc { id: 2, reads: vec![3], writes: vec![] }], "a writes type 9, b reads type 3 twice, c reads type 3".into()));
        shapes.push((vec![Acc { id: 0, reads: vec![3, 3], writes: vec![] }, Acc { id: 1, reads: vec![], writes: vec![9, 9] }, Acc { id: 2, reads: vec![], writes: vec![3] }], "a reads type 3 twice, b writes type 9 twice, c writes type 3".into()));
        for k in [7usize, 8, 9, 15, 16, 17] {
            for rev in [false, true] {
                let mut list: Vec<u8> = (10..10 + k as u8).collect();
                if rev { list.reverse(); }
                for pick in [0usize, k / 2, k - 1] {
                    let t = 10 + pick as u8;
                    for many_writes in [false, true] {
                        let many = if many_writes { Acc { id: 0, reads: vec![], writes: list.clone() } } else { Acc { id: 0, reads: list.clone(), writes: vec![] } };
                        let one = if many_writes { Acc { id: 1, reads: vec![t], writes: vec![] } } else { Acc { id: 1, reads: vec![], writes: vec![t] } };
                        shapes.push((vec![Acc { id: 0, ..many.clone() }, Acc { id: 1, ..one.clone() }], format!("function 0 {} {k} types {list:?}, function 1 {} type {t}", if many_writes { "writes" } else { "reads" }, if many_writes { "reads" } else { "writes" })));
                        shapes.push((vec![Acc { id: 0, ..one }, Acc { id: 1, ..many }], format!("function 0 touches type {t}, function 1 {} {k} types {list:?}", if many_writes { "writes" } else { "reads" })));
                    }
                }
            }
        }
        for (accs, d) in shapes {
            let desc = format!("access-list shapes: {d}");
            let n = accs.len();
            let mut b = FnGraphBuilder::new();
            for a in accs.iter().cloned() { b.add_fn(a); }
            let g = match std::panic::catch_unwind(std::panic::AssertUnwindSafe(|| b.build())) { Ok(g) => g, Err(_) => { println!("VIOLATION (build panicked): {desc}"); std::process::exit(1); } };
            let raw = g.graph.raw_edges();
            for e in raw {
                let (s_, t_) = (e.source().index(), e.target().index());
                if e.weight != Edge::Data || !conflict(&accs[s_], &accs[t_]) { println!("VIOLATION (C06/C11: built edge {s_}->{t_} {:?} does not join two functions with conflicting data access): {desc}", e.weight); std::process::exit(1); }
            }
            for i in 0..n { for j in (i + 1)..n {
                let joined = raw.iter().any(|e| (e.source().index(), e.target().index()) == (i, j) || (e.source().index(), e.target().index()) == (j, i));
                // no user edges and at most 3 functions: ordered means joined directly or through the third
                let via = (0..n).any(|m| m != i && m != j && raw.iter().any(|e| e.source().index() == i && e.target().index() == m) && raw.iter().any(|e| e.source().index() == m && e.target().index() == j));
                if conflict(&accs[i], &accs[j]) && !joined && !via { println!("VIOLATION (C01/C11: conflicting functions {i} and {j} are not ordered in the built graph): {desc}"); std::process::exit(1); }
            } }
            direction_rule(&g, 0, &desc);
        }
    }
    // large families (effects that only show beyond small graphs: wrap-around of small counters, more data types than a
    // machine word has bits): the same static oracles on (a) 300 functions without user edges where function i writes
    // slot (i/2)%4 and reads slot (i/2+1)%4, (b) a batch job over 70 tables (load_i writes table i, check_i reads tables
    // i and i+1), (c) 300 writers of one type
    for family in 0..4 {
        let accs: Vec<Acc> = match family {
            // (d) 5200 functions of which only the first three touch data (writer, reader, writer of one type: the third is ordered
            // behind the first through the second)
            3 => (0..5200).map(|i| match i { 0 | 2 => Acc { id: i, reads: vec![], writes: vec![0] }, 1 => Acc { id: i, reads: vec![0], writes: vec![] }, _ => Acc { id: i, reads: vec![], writes: vec![] } }).collect(),
            0 => (0..300).map(|i| Acc { id: i, reads: vec![((i / 2 + 1) % 4) as u8], writes: vec![((i / 2) % 4) as u8] }).collect(),
            1 => (0..140).map(|i| if i < 70 { Acc { id: i, reads: vec![], writes: vec![i as u8] } } else { let t = i - 70; Acc { id: i, reads: vec![t as u8, ((t + 1) % 70) as u8], writes: vec![] } }).collect(),
            _ => (0..300).map(|i| Acc { id: i, reads: vec![], writes: vec![0] }).collect(),
        };
        let n = accs.len();
        let desc = format!("large family {family} ({n} functions, no user edges)");
        let mut b = FnGraphBuilder::new();
        let ids: Vec<FnId> = accs.iter().cloned().map(|a| b.add_fn(a)).collect();
        let g = match std::panic::catch_unwind(std::panic::AssertUnwindSafe(|| b.build())) { Ok(g) => g, Err(_) => { println!("VIOLATION (build panicked): {desc}"); std::process::exit(1); } };
        let dag = &g.graph;
        let raw = dag.raw_edges();
        for e in raw {
            let (s_, t_) = (e.source().index(), e.target().index());
            if e.weight != Edge::Data || !conflict(&accs[s_], &accs[t_]) { println!("VIOLATION (C06/C11: built edge {s_}->{t_} {:?} does not join two functions with conflicting data access: {:?} vs {:?}): {desc}", e.weight, (&accs[s_].reads, &accs[s_].writes), (&accs[t_].reads, &accs[t_].writes)); std::process::exit(1); }
        }
        // reachability closure by positions in a topological order of the built graph (edges go from lower to higher rank / id)
        if n > 1000 {
            // very large family: only the functions with data access matter for the ordering oracle
            let mut adj: Vec<Vec<usize>> = vec![vec![]; n];
            for e in raw { adj[e.source().index()].push(e.target().index()); }
            let with_access: Vec<usize> = (0..n).filter(|&i| !accs[i].reads.is_empty() || !accs[i].writes.is_empty()).collect();
            let reach1 = |a: usize, b2: usize| { let mut seen = vec![false; n]; let mut st = vec![a]; while let Some(x) = st.pop() { if x == b2 { return true; } if seen[x] { continue; } seen[x] = true; st.extend(adj[x].iter().copied()); } false };
            for &i in &with_access { for &j in &with_access { if i < j && conflict(&accs[i], &accs[j]) && !reach1(i, j) && !reach1(j, i) { println!("VIOLATION (C01/C11: conflicting functions {i} and {j} are not ordered in the built graph): {desc}"); std::process::exit(1); } } }
            direction_rule(&g, 0, &desc);
            continue;
        }
        let mut reachable: Vec<Vec<bool>> = vec![vec![false; n]; n];
        let mut order: Vec<usize> = (0..n).collect();
        order.sort_by_key(|&i| (g.ranks()[i].0, i));
        // Data edges may join equal ranks: use a DFS per node instead of relying on the order
        let mut adj: Vec<Vec<usize>> = vec![vec![]; n];
        for e in raw { adj[e.source().index()].push(e.target().index()); }
        for a in 0..n { let mut st = vec![a]; while let Some(x) = st.pop() { for &y in &adj[x] { if !reachable[a][y] { reachable[a][y] = true; st.push(y); } } } }
        for i in 0..n { for j in (i + 1)..n {
            if conflict(&accs[i], &accs[j]) && !reachable[i][j] && !reachable[j][i] { println!("VIOLATION (C01/C11: conflicting functions {i} and {j} are not ordered in the built graph): {desc}"); std::process::exit(1); }
        } }
        if fn_graph::daggy::petgraph::algo::is_cyclic_directed(dag.graph()) { println!("VIOLATION (cycle): {desc}"); std::process::exit(1); }
        direction_rule(&g, 0, &desc);
        let _ = ids;
    }
    println!("OK: C11 statement holds on all explored builds");
}
