//! C17 replay (feature graph_info): GraphInfo::from_graph on pseudo-random small DAGs with logic, contains and data
//! edges: nodes in insertion order mapped through the caller's function (called once per function), exactly the built
//! graph's edges with kinds, iter / iter_rev topological over all nodes, YAML round trip yields an equal value.
use fn_graph::{Edge, FnGraphBuilder, FnId, GraphInfo};
use fn_graph_replay::*;

struct Lcg(u64);
impl Lcg {
    fn next(&mut self) -> u64 { self.0 = self.0.wrapping_mul(6364136223846793005).wrapping_add(1442695040888963407); self.0 >> 33 }
    fn below(&mut self, n: u64) -> u64 { self.next() % n }
}

fn fail(what: &str, desc: &str) -> ! {
    println!("VIOLATION (C17: {what}): {desc}");
    std::process::exit(1);
}

fn kind(e: Edge) -> u8 { match e { Edge::Logic => 0, Edge::Contains => 1, Edge::Data => 2 } }


fn check_graph(n: usize, accs: &[Acc], es: &[(usize, usize, bool)], desc: &str, _small: bool) {
    let desc: String = desc.to_string();
    let desc = &desc;
        let mut b = FnGraphBuilder::new();
        let ids: Vec<FnId> = accs.iter().cloned().map(|a| b.add_fn(a)).collect();
        for &(x, y, logic) in es {
            if logic { b.add_logic_edge(ids[x], ids[y]).unwrap(); } else { b.add_contains_edge(ids[x], ids[y]).unwrap(); }
        }
        let g = b.build();
        let calls = std::cell::RefCell::new(vec![]);
        let r = std::panic::catch_unwind(std::panic::AssertUnwindSafe(|| GraphInfo::from_graph(&g, |a: &Acc| { calls.borrow_mut().push(a.id); format!("info:{}", a.id) })));
        let info = match r { Ok(i) => i, Err(_) => fail("from_graph panicked", desc) };
        let mut c = calls.borrow().clone();
        c.sort();
        if c != (0..n).collect::<Vec<_>>() { fail(&format!("the caller's function was called for {:?}", calls.borrow()), desc); }
        let nodes: Vec<String> = info.raw_nodes().iter().map(|x| x.weight.clone()).collect();
        if nodes != (0..n).map(|i| format!("info:{i}")).collect::<Vec<_>>() { fail(&format!("nodes {nodes:?}"), desc); }
        let ge: Vec<(usize, usize, u8)> = g.graph.raw_edges().iter().map(|e| (e.source().index(), e.target().index(), kind(e.weight))).collect();
        let ie: Vec<(usize, usize, u8)> = info.raw_edges().iter().map(|e| (e.source().index(), e.target().index(), kind(e.weight))).collect();
        if ge != ie {
            if ge.len() > 60 {
                let missing: Vec<_> = ge.iter().filter(|e| !ie.contains(e)).take(5).collect();
                fail(&format!("edges differ: fn_graph has {} edges, graph_info {}; e.g. missing from graph_info: {missing:?} (kinds 0=Logic 1=Contains 2=Data)", ge.len(), ie.len()), &desc.chars().take(300).collect::<String>());
            }
            fail(&format!("edges differ: fn_graph {ge:?} graph_info {ie:?} (kinds 0=Logic 1=Contains 2=Data)"), desc);
        }
        for (api, seq, rev) in [("iter", info.iter().cloned().collect::<Vec<_>>(), false), ("iter_rev", info.iter_rev().cloned().collect::<Vec<_>>(), true)] {
            let mut pos = vec![usize::MAX; n];
            for (k, s) in seq.iter().enumerate() {
                let i: usize = s[5..].parse().unwrap();
                if pos[i] != usize::MAX { fail(&format!("{api} yields node {i} twice"), desc); }
                pos[i] = k;
            }
            if pos.iter().any(|&p| p == usize::MAX) { fail(&format!("{api} misses a node: {seq:?}"), desc); }
            for &(a, b, _) in &ge {
                let ok = if rev { pos[b] < pos[a] } else { pos[a] < pos[b] };
                if !ok { fail(&format!("{api} order {seq:?} does not respect edge {a}->{b} of the built graph"), desc); }
            }
        }
        let yaml = match serde_yaml_ng::to_string(&info) { Ok(y) => y, Err(e) => fail(&format!("serialisation failed: {e}"), desc) };
        let back: GraphInfo<String> = match serde_yaml_ng::from_str(&yaml) { Ok(b) => b, Err(e) => fail(&format!("deserialisation failed: {e}"), desc) };
        if back != info { fail("value read back from YAML differs", desc); }
        let be: Vec<(usize, usize, u8)> = back.raw_edges().iter().map(|e| (e.source().index(), e.target().index(), kind(e.weight))).collect();
        if be != ge { fail(&format!("edges read back from YAML {be:?} differ from the built graph's {ge:?}"), desc); }
}

fn main() {
    let seed = std::env::var("VERIF_SEED").ok().and_then(|s| s.parse().ok()).unwrap_or(1u64);
    let mut rng = Lcg(seed.wrapping_mul(15485863) + 5);
    for round in 0..3000 {
        let n = rng.below(8) as usize;
        let mut label: Vec<usize> = (0..n).collect();
        for i in (1..n).rev() { let j = rng.below(i as u64 + 1) as usize; label.swap(i, j); }
        let access_pct = [0u64, 30, 50][rng.below(3) as usize];
        let accs: Vec<Acc> = (0..n).map(|i| {
            let mut reads = vec![]; let mut writes = vec![];
            for t in 0..3u8 { let r = rng.below(100); if r < access_pct / 2 { reads.push(t) } else if r < access_pct { writes.push(t) } }
            Acc { id: i, reads, writes }
        }).collect();
        let mut es = vec![];
        for i in 0..n { for j in (i + 1)..n { if rng.below(100) < 25 { es.push((label[i], label[j], rng.below(2) == 0)); } } }
        let desc = format!("round {round}: n={n} accesses={:?} user edges(from,to,is_logic)={es:?}", accs.iter().map(|a| (a.reads.clone(), a.writes.clone())).collect::<Vec<_>>());
        check_graph(n, &accs, &es, &desc, true);
    }
    // large graphs: ids beyond 8, 10, 12 and 16 bits (packed or truncated ids in a copy of the edges alias only there). For each
    // width w: a logic edge s -> 2^w + x and the pair (s+1, x) as a data conflict or a logic edge, plus random sparse edges
    for (n, widths) in [(300usize, vec![6u32, 8]), (1100, vec![8, 10]), (4200, vec![10, 12])] {
        let mut accs: Vec<Acc> = (0..n).map(|i| Acc { id: i, reads: vec![], writes: vec![] }).collect();
        let mut es: Vec<(usize, usize, bool)> = vec![];
        for (wi, &w) in widths.iter().enumerate() {
            let base = 1usize << w;
            let (s0, x) = (1 + 3 * wi, 7 + 5 * wi);
            es.push((s0, base + x, true));
            es.push((s0 + 1, x, wi % 2 == 0));
            // two writers of one type far apart: build() joins them with a Data edge s0+2 -> base + x + 1
            accs[s0 + 2].writes = vec![wi as u8]; accs[base + x + 1].writes = vec![wi as u8];
        }
        for _ in 0..40 { let a = rng.below(n as u64 - 1) as usize; let b2 = a + 1 + rng.below((n - a - 1) as u64) as usize; if !es.iter().any(|&(p, q, _)| p == a && q == b2) { es.push((a, b2, rng.below(2) == 0)); } }
        let desc = format!("large graph: n={n}, user edges(from,to,is_logic)={es:?}, writers of one type at distance");
        check_graph(n, &accs, &es, &desc, false);
    }
    // more than 65536 edges (sizes and indices that no longer fit in 16 bits): two layers, every function of the first before every
    // function of the second (260 x 256 = 66560 logic edges), four writers of one type spread over both layers
    {
        let (a, b2) = (260usize, 256usize);
        let n = a + b2;
        let mut accs: Vec<Acc> = (0..n).map(|i| Acc { id: i, reads: vec![], writes: vec![] }).collect();
        for i in [0usize, 1, a, a + 1] { accs[i].writes = vec![0]; }
        let mut es: Vec<(usize, usize, bool)> = vec![];
        for i in 0..a { for j in 0..b2 { es.push((i, a + j, true)); } }
        let desc = format!("two complete layers {a} x {b2}: {} logic edges, writers of one type at 0, 1, {a}, {}", es.len(), a + 1);
        check_graph(n, &accs, &es, &desc, false);
    }
    println!("OK c17_info: 3000 small graphs and graphs of 300 / 1100 / 4200 functions, one graph with 66560 edges: nodes, edges with kinds, iter, iter_rev, YAML round trip");
}
