//! Bounded native search over RUNS of the real crate (replay / fallback only; never counted as proof):
//! pseudo-random small DAGs with access declarations + two fixed families (wide fan-out 70, layered),
//! driven on one thread with user futures that yield a pseudo-random number of times. Oracles, taken from
//! the property statements: C01 conflicting functions never in flight together; C02 a function starts only
//! after everything it depends on ended (forward) / everything depending on it (reverse); C03 at most once,
//! exactly once in a clean run; C04 the call returns (watchdog) and does not panic; C07 one error per failed
//! function, nothing ordered after a failed one starts; C09 outcome lists.
//! With VERIF_EXECUTOR=tokio every call is driven by a tokio current-thread runtime instead of futures' block_on (tokio's
//! per-task cooperative budget makes its primitives return Pending spuriously once ~128 operations happened in one poll).
//! usage: c_run [C01|C02|C03|C04|C05|C07|C09|C10|C20|all]
use fn_graph::daggy::petgraph::algo::has_path_connecting;
use fn_graph::{FnGraph, FnGraphBuilder, FnId, StreamOpts, StreamOutcomeState};
use fn_graph_replay::*;
use futures::stream::StreamExt;
use std::cell::RefCell;
use std::future::Future;
use std::pin::Pin;
use std::rc::Rc;
use std::task::{Context, Poll};

struct Lcg(u64);
impl Lcg {
    fn next(&mut self) -> u64 { self.0 = self.0.wrapping_mul(6364136223846793005).wrapping_add(1442695040888963407); self.0 >> 33 }
    fn below(&mut self, n: u64) -> u64 { self.next() % n }
}

struct YieldN(u32);
impl Future for YieldN {
    type Output = ();
    fn poll(mut self: Pin<&mut Self>, cx: &mut Context<'_>) -> Poll<()> {
        // READY_ONLY (set per case in the tokio-runtime mode): user futures complete at their first poll, so many functions
        // finish inside one poll of the streaming call (tokio's per-task operation budget runs out only then)
        if self.0 == 0 || READY_ONLY.load(std::sync::atomic::Ordering::Relaxed) { Poll::Ready(()) } else { self.0 -= 1; cx.waker().wake_by_ref(); Poll::Pending }
    }
}

static READY_ONLY: std::sync::atomic::AtomicBool = std::sync::atomic::AtomicBool::new(false);

#[derive(Clone, Debug)]
enum Ev { Start(usize), End(usize) }

struct Case { n: usize, accs: Vec<Acc>, edges: Vec<(usize, usize)>, desc: String }

fn conflict(a: &Acc, b: &Acc) -> bool {
    a.reads.iter().any(|t| b.writes.contains(t)) || a.writes.iter().any(|t| b.reads.contains(t)) || a.writes.iter().any(|t| b.writes.contains(t))
}

fn build(c: &Case) -> (FnGraph<Acc>, Vec<FnId>) {
    let mut b = FnGraphBuilder::new();
    let ids: Vec<FnId> = c.accs.iter().cloned().map(|a| b.add_fn(a)).collect();
    for &(x, y) in &c.edges { b.add_logic_edge(ids[x], ids[y]).unwrap(); }
    let g = b.build();
    // every other graph is a `clone()` of the built one (the original is dropped): a copy must run like the original
    if BUILDS.fetch_add(1, std::sync::atomic::Ordering::Relaxed) % 2 == 1 { (g.clone(), ids) } else { (g, ids) }
}
static BUILDS: std::sync::atomic::AtomicUsize = std::sync::atomic::AtomicUsize::new(0);

fn check_trace(which: &str, c: &Case, g: &FnGraph<Acc>, ids: &[FnId], trace: &[Ev], reverse: bool, clean: bool, failed: &[usize], api: &str) -> Result<(), String> {
    let n = c.n;
    let mut started = vec![0usize; n];
    let mut ended = vec![false; n];
    let dag = &g.graph;
    for ev in trace {
        match *ev {
            Ev::Start(i) => {
                started[i] += 1;
                if started[i] > 1 && (which == "C03" || which == "all") { return Err(format!("C03: function {i} handed out twice ({api}; {})", c.desc)); }
                for j in 0..n {
                    if j == i { continue; }
                    let dep = if reverse { has_path_connecting(dag.graph(), ids[i], ids[j], None) } else { has_path_connecting(dag.graph(), ids[j], ids[i], None) };
                    // only user (logic) dependencies are required by C02; data edges are covered by C01
                    let user_dep = if reverse { user_path(c, i, j) } else { user_path(c, j, i) };
                    if user_dep && !ended[j] && (which == "C02" || which == "all") {
                        return Err(format!("C02: function {i} started before {j} ended although {} ({api}, reverse={reverse}; {}) trace={trace:?}", if reverse { "j depends on i" } else { "i depends on j" }, c.desc));
                    }
                    if dep && failed.contains(&j) && (which == "C07" || which == "all") {
                        return Err(format!("C07: function {i} started although it is ordered after the failed function {j} ({api}; {})", c.desc));
                    }
                    if started[j] > 0 && !ended[j] && conflict(&c.accs[i], &c.accs[j]) && (which == "C01" || which == "all") {
                        return Err(format!("C01: conflicting functions {i} and {j} in flight together ({api}, reverse={reverse}; {}) trace={trace:?}", c.desc));
                    }
                }
            }
            Ev::End(i) => ended[i] = true,
        }
    }
    if clean && (which == "C03" || which == "all") {
        for i in 0..n { if started[i] != 1 { return Err(format!("C03: clean run, function {i} handed out {} times ({api}, reverse={reverse}; {})", started[i], c.desc)); } }
    }
    Ok(())
}

fn user_path(c: &Case, from: usize, to: usize) -> bool {
    // reachability over the user's logic edges
    let mut seen = vec![false; c.n];
    let mut st = vec![from];
    while let Some(x) = st.pop() {
        if x == to && x != from { return true; }
        if seen[x] { continue; }
        seen[x] = true;
        for &(a, b) in &c.edges { if a == x { if b == to { return true; } st.push(b); } }
    }
    false
}

static HANGS: std::sync::atomic::AtomicUsize = std::sync::atomic::AtomicUsize::new(0);

/// runs `f` on a helper thread with a watchdog: Err on hang or panic (C04)
fn guarded(which: &str, label: String, f: impl FnOnce() -> Result<(), String> + Send + 'static) -> Result<Result<(), String>, String> {
    let (tx, rx) = std::sync::mpsc::channel();
    let h = std::thread::spawn(move || { let r = std::panic::catch_unwind(std::panic::AssertUnwindSafe(f)); let _ = tx.send(r.is_ok()); r });
    // a panic / hang is a C04 matter; a hang of a for_each_concurrent* call with a limit >= 1 is also what C10's last sentence excludes
    let c10_hang = which == "C10" && (label.contains("limit=Some(1)") || label.contains("limit=Some(2)"));
    // ... and a run that shares the graph with other runs and never returns breaks C20's "termination ... as if it were the only run"
    let c20_hang = which == "C20" && (label.contains("threads") || label.contains("joined"));
    let c04 = which == "C04" || which == "all";
    // a run that is stuck is parked (no CPU); a run that is merely slow on a loaded machine keeps the process busy
    match recv_unless_idle(&rx, 20, 900) {
        Some(true) => Ok(h.join().unwrap().ok().unwrap()),
        // a panic / hang is a C04 matter: it is only reported when C04 is being searched
        Some(false) => if c04 { Err(format!("C04: panic during {label}")) } else { Ok(Ok(())) },
        None if c20_hang => Err(format!("C20: {label}: did not return (no progress for 20 s, every thread is parked)")),
        None if c10_hang => Err(format!("C10: {label} did not run to completion (no progress for 20 s, the thread is parked) although the limit is >= 1")),
        None => if c04 { Err(format!("C04: {label} did not return (no progress for 20 s: future left pending with no wake-up)")) } else {
            // hangs are a C04 matter; a search for another property gives up after a few of them instead of waiting 20 s per call
            if HANGS.fetch_add(1, std::sync::atomic::Ordering::SeqCst) >= 2 { println!("OK: {which} search abandoned after repeated hangs (hangs are reported by the C04 search)"); std::process::exit(0); }
            Ok(Ok(()))
        },
    }
}

/// one very large graph (more than 4096 functions: the ids no longer fit in 12 bits): 4100 independent functions and a chain of
/// 100 behind function 0; `try_for_each_concurrent` with function 0 failing - every independent function is dequeued, no
/// function of the chain is - and a clean `for_each_concurrent`. Judged: the errors (C07) and the outcome lists (C09)
fn run_big_case(which: &'static str, c: Case) -> Result<(), String> {
    if !(which == "C07" || which == "C09" || which == "C03" || which == "all") { return Ok(()); }
    let n = c.n;
    let cc = Case { n: c.n, accs: c.accs.clone(), edges: c.edges.clone(), desc: c.desc.clone() };
    guarded(which, format!("try_for_each_concurrent (function 0 fails) on {}", c.desc), move || {
        let (g, _ids) = build(&cc);
        let started = Rc::new(RefCell::new(Vec::<usize>::new()));
        let st = started.clone();
        let res = block_on(g.try_for_each_concurrent(None, move |f: &Acc| { let (st, id) = (st.clone(), f.id); async move { st.borrow_mut().push(id); if id == 0 { Err(id) } else { Ok(()) } } }));
        let started = started.borrow().clone();
        let (outcome, errs) = match res { Ok(o) => (o, vec![]), Err((o, e)) => (o, e) };
        if (which == "C07" || which == "all") && errs != vec![0] { return Err(format!("C07: errors {errs:?} but exactly function 0 failed ({})", cc.desc)); }
        if which == "C09" || which == "C03" || which == "all" {
            let proc_: Vec<usize> = outcome.fn_ids_processed.iter().map(|i| i.index()).collect();
            if proc_ != started { return Err(format!("C09: fn_ids_processed has {} ids but {} functions were started ({})", proc_.len(), started.len(), cc.desc)); }
            let mut is_proc = vec![false; n];
            for &i in &proc_ { is_proc[i] = true; }
            let want: Vec<usize> = (0..n).filter(|&i| !is_proc[i]).collect();
            let got: Vec<usize> = outcome.fn_ids_not_processed.iter().map(|i| i.index()).collect();
            if got != want { return Err(format!("C09: {} functions were processed, fn_ids_not_processed lists {} ids {:?}.. but the functions never handed out are the {} ids {:?}.. ({})", proc_.len(), got.len(), &got[..got.len().min(5)], want.len(), &want[..want.len().min(5)], cc.desc)); }
            if (outcome.state == StreamOutcomeState::Finished) != want.is_empty() { return Err(format!("C09: state {:?} with {} functions not processed ({})", outcome.state, want.len(), cc.desc)); }
        }
        Ok(())
    })??;
    Ok(())
}

/// C07 on a runtime with a cooperative budget: k functions that succeed, then a failing one, a succeeding one, a second failing one
/// and a function that depends on the second failure. Every function but the dependent parks on a gate; when all are parked they
/// are released in id order, so that all of them complete inside ONE poll of the call. k and `extra` (budgeted operations done by
/// function 0) sweep the point at which the budget (128 operations per task poll on tokio) runs out across the failure path.
#[derive(Default)]
struct Gate { open: bool, wakers: Vec<(usize, std::task::Waker)>, started: Vec<usize> }

fn budget_sweep(which: &'static str) -> Result<(), String> {
    if !(which == "C07" || which == "all") { return Ok(()); }
    for mutable in [false, true] {
        for k in 0..=140usize {
            for extra in 0..3usize {
                let n = k + 4;
                let (f1, f2, dep) = (k, k + 2, k + 3);
                let label = format!("try_for_each_concurrent{}: {k} succeeding functions, failing {f1}, succeeding {}, failing {f2}, and {dep} depending on {f2}, all released from a gate in id order; function 0 does {extra} extra budgeted operations", if mutable { "_mut" } else { "" }, k + 1);
                guarded(which, label.clone(), move || {
                    let c = Case { n, accs: (0..n).map(|i| Acc { id: i, reads: vec![], writes: vec![] }).collect(), edges: vec![(f2, dep)], desc: label.clone() };
                    let (mut g, _ids) = build(&c);
                    let gate = Rc::new(RefCell::new(Gate::default()));
                    let body = { let gate = gate.clone(); move |id: usize| { let gate = gate.clone(); async move {
                        gate.borrow_mut().started.push(id);
                        std::future::poll_fn(|cx| { let mut s = gate.borrow_mut(); if s.open { Poll::Ready(()) } else { s.wakers.retain(|(i, _)| *i != id); s.wakers.push((id, cx.waker().clone())); Poll::Pending } }).await;
                        if id == 0 { for _ in 0..extra { tokio::task::coop::consume_budget().await; } }
                        if id == f1 || id == f2 { Err(id) } else { Ok(()) }
                    } } };
                    let opener = { let gate = gate.clone(); async move {
                        std::future::poll_fn(|cx| {
                            let mut s = gate.borrow_mut();
                            if s.wakers.len() < dep { cx.waker().wake_by_ref(); return Poll::Pending; }
                            s.open = true;
                            let mut ws = std::mem::take(&mut s.wakers);
                            drop(s);
                            ws.sort_by_key(|(i, _)| *i);
                            ws.into_iter().for_each(|(_, w)| w.wake());
                            Poll::Ready(())
                        }).await
                    } };
                    let res = if mutable {
                        let b2 = body.clone();
                        block_on(async { futures::join!(g.try_for_each_concurrent_mut(None, move |f: &mut Acc| b2(f.id)), opener).0 })
                    } else {
                        let b2 = body.clone();
                        block_on(async { futures::join!(g.try_for_each_concurrent(None, move |f: &Acc| b2(f.id)), opener).0 })
                    };
                    let started = gate.borrow().started.clone();
                    if started.contains(&dep) { return Err(format!("C07: function {dep} was started although its predecessor {f2} failed ({label})")); }
                    let mut errs = match res { Ok(_) => vec![], Err((_, e)) => e };
                    errs.sort();
                    if errs != vec![f1, f2] { return Err(format!("C07: errors {errs:?} but functions {f1} and {f2} failed ({label})")); }
                    Ok(())
                })??;
            }
        }
    }
    Ok(())
}

fn run_case(which: &'static str, c: Case, seed: u64) -> Result<(), String> {
    if c.n > 1000 { return run_big_case(which, c); }
    let stream_only = which == "C05";
    for reverse in [false, true] {
        for limit in [None, Some(1usize), Some(2)] {
            if stream_only { break; }
            // ---- for_each_concurrent_with
            let cc = Case { n: c.n, accs: c.accs.clone(), edges: c.edges.clone(), desc: c.desc.clone() };
            let label = format!("for_each_concurrent_with(limit={limit:?}, reverse={reverse}) on {}", c.desc);
            let r = guarded(which, label.clone(), move || {
                let (g, ids) = build(&cc);
                let trace = Rc::new(RefCell::new(Vec::<Ev>::new()));
                let rng = Rc::new(RefCell::new(Lcg(seed ^ 0x9e37)));
                let opts = if reverse { StreamOpts::new().rev() } else { StreamOpts::new() };
                let outcome = std::panic::catch_unwind(std::panic::AssertUnwindSafe(|| block_on(g.for_each_concurrent_with(limit, opts, |f: &Acc| {
                    let (t, r, id) = (trace.clone(), rng.clone(), f.id);
                    async move {
                        t.borrow_mut().push(Ev::Start(id));
                        let k = r.borrow_mut().below(4) as u32;
                        YieldN(k).await;
                        t.borrow_mut().push(Ev::End(id));
                    }
                }))));
                let tr = trace.borrow().clone();
                let outcome = match outcome {
                    Ok(o) => o,
                    Err(p) => {
                        // the run panicked: what happened before the panic is still judged by the oracle asked for
                        check_trace(which, &cc, &g, &ids, &tr, reverse, false, &[], "for_each_concurrent_with (run panicked later)")?;
                        std::panic::resume_unwind(p);
                    }
                };
                let mut res = check_trace(which, &cc, &g, &ids, &tr, reverse, true, &[], "for_each_concurrent_with");
                if res.is_ok() && (which == "C09" || which == "all") {
                    let started: Vec<usize> = tr.iter().filter_map(|e| if let Ev::Start(i) = e { Some(*i) } else { None }).collect();
                    let proc_: Vec<usize> = outcome.fn_ids_processed.iter().map(|i| i.index()).collect();
                    if proc_ != started || outcome.state != StreamOutcomeState::Finished || !outcome.fn_ids_not_processed.is_empty() {
                        res = Err(format!("C09: outcome {:?}/{:?}/{:?} vs started {started:?} ({})", outcome.state, proc_, outcome.fn_ids_not_processed, cc.desc));
                    }
                }
                if res.is_ok() && limit.is_some() && (which == "C10" || which == "all") {
                    let mut inflight = 0usize; let mut mx = 0usize;
                    for e in &tr { match e { Ev::Start(_) => { inflight += 1; mx = mx.max(inflight); } Ev::End(_) => inflight -= 1 } }
                    if mx > limit.unwrap() { res = Err(format!("C10: {mx} user futures in flight with limit {limit:?} ({})", cc.desc)); }
                }
                res
            })?;
            r?;
        }
        // ---- fold_async_with
        let cc = Case { n: c.n, accs: c.accs.clone(), edges: c.edges.clone(), desc: c.desc.clone() };
        let label = format!("fold_async_with(reverse={reverse}) on {}", c.desc);
        if !stream_only { guarded(which, label, move || {
            let (g, ids) = build(&cc);
            let opts = if reverse { StreamOpts::new().rev() } else { StreamOpts::new() };
            let outcome = block_on(g.fold_async_with(Vec::<Ev>::new(), opts, |mut t, f| Box::pin(async move {
                t.push(Ev::Start(f.id)); YieldN(1).await; t.push(Ev::End(f.id)); t
            })));
            let tr = outcome.value.clone();
            let r = check_trace(which, &cc, &g, &ids, &tr, reverse, true, &[], "fold_async_with");
            if r.is_ok() && outcome.state != StreamOutcomeState::Finished && (which == "C03" || which == "C09" || which == "all") {
                return Err(format!("C03/C09: fold_async_with returned {:?} with not processed {:?} in a clean run ({})", outcome.state, outcome.fn_ids_not_processed, cc.desc));
            }
            r
        })??; }
        // ---- stream: hold FnRefs, drop in pseudo-random order, poll by hand
        let cc = Case { n: c.n, accs: c.accs.clone(), edges: c.edges.clone(), desc: c.desc.clone() };
        let label = format!("stream_with(reverse={reverse}) on {}", c.desc);
        guarded(which, label, move || {
            let (g, ids) = build(&cc);
            let opts = if reverse { StreamOpts::new().rev() } else { StreamOpts::new() };
            let (w, cnt) = counting_waker();
            let mut cx = ctx(&w);
            let mut s = Box::pin(g.stream_with(opts));
            let mut rng = Lcg(seed ^ 0x51ed);
            let mut held = vec![];
            let mut tr = vec![];
            let mut done = false;
            let mut guard = 0;
            while !done {
                guard += 1;
                if guard > 100000 { return Err(format!("C05: stream did not end ({})", cc.desc)); }
                let before = wakes(&cnt);
                match s.poll_next_unpin(&mut cx) {
                    Poll::Ready(Some(r)) => { tr.push(Ev::Start(r.id)); held.push(r); }
                    Poll::Ready(None) => done = true,
                    Poll::Pending => {
                        if held.is_empty() {
                            if wakes(&cnt) == before { return Err(format!("C05: Pending, no FnRef outstanding, no wake-up ({}) trace={tr:?}", cc.desc)); }
                        } else {
                            // drop 1..=k refs in pseudo-random order, then the wake-up must have been signalled
                            let k = 1 + rng.below(held.len() as u64) as usize;
                            for _ in 0..k { let i = rng.below(held.len() as u64) as usize; let r = held.swap_remove(i); tr.push(Ev::End(r.id)); drop(r); }
                            if wakes(&cnt) == before { return Err(format!("C05: FnRefs dropped but no wake-up signalled ({})", cc.desc)); }
                        }
                    }
                }
            }
            for r in held.drain(..) { tr.push(Ev::End(r.id)); }
            check_trace(which, &cc, &g, &ids, &tr, reverse, true, &[], "stream_with")
        })??;
    }
    // ---- stream consumed by an async loop INSIDE the executor (on a tokio runtime every tokio primitive the consumer and the
    // stream touch draws on one cooperative budget, so `Pending` can come back with items queued): take, do k tokio
    // operations, drop, poll again; every function must be handed out exactly once and the stream must end
    if which == "C03" || which == "C05" || which == "C04" || which == "all" {
        for k in 0..8usize {
            if c.n <= 50 && k > 4 { continue; }
            for reverse in [false, true] {
                if c.n > 50 && reverse { continue; }
                let cc = Case { n: c.n, accs: c.accs.clone(), edges: c.edges.clone(), desc: c.desc.clone() };
                let label = format!("stream_with(reverse={reverse}) consumed by an async loop doing {k} channel receives per item on {}", c.desc);
                guarded(which, label.clone(), move || {
                    let (g, _ids) = build(&cc);
                    let opts = if reverse { StreamOpts::new().rev() } else { StreamOpts::new() };
                    let handed: Vec<usize> = block_on(async {
                        // k budgeted tokio operations per item: receives from a channel that already holds enough values
                        let (tx, mut rx) = tokio::sync::mpsc::unbounded_channel::<usize>();
                        for i in 0..cc.n * k + 1 { let _ = tx.send(i); }
                        let mut out = vec![];
                        let mut s = std::pin::pin!(g.stream_with(opts));
                        while let Some(r) = s.next().await {
                            out.push(r.id);
                            for _ in 0..k { let _ = rx.recv().await; }
                            drop(r);
                        }
                        out
                    });
                    let mut seen = vec![0usize; cc.n];
                    for &i in &handed { seen[i] += 1; }
                    if let Some(i) = (0..cc.n).find(|&i| seen[i] != 1) {
                        return Err(format!("C03: {label}: the stream ended after {} of {} functions; function {i} was handed out {} times", handed.len(), cc.n, seen[i]));
                    }
                    Ok(())
                })??;
            }
        }
    }
    // ---- entry-point sweep: a clean run through EVERY public fold / for_each entry point (the pass-through wrappers are under
    // no contract): order, exactly-once and the outcome are judged per entry point; small graphs only
    if !stream_only && c.n <= 8 {
        for ep in 0..20usize {
            let cc = Case { n: c.n, accs: c.accs.clone(), edges: c.edges.clone(), desc: c.desc.clone() };
            let names = ["fold_async", "fold_async_with", "fold_async_mut", "fold_async_mut_with", "try_fold_async", "try_fold_async_with", "try_fold_async_mut", "try_fold_async_mut_with",
                         "for_each_concurrent", "for_each_concurrent_mut", "for_each_concurrent_mut_with", "try_for_each_concurrent_with", "try_for_each_concurrent_mut_with",
                         "try_for_each_concurrent_control", "try_for_each_concurrent_control_with", "try_for_each_concurrent_control_mut", "try_for_each_concurrent_control_mut_with",
                         "try_for_each_concurrent_mut", "try_for_each_concurrent", "for_each_concurrent_with"];
            let name = names[ep];
            let with_opts = name.ends_with("_with");
            let reverse = with_opts && (seed + ep as u64) % 2 == 1;
            let label = format!("{name}(reverse={reverse}) on {}", c.desc);
            guarded(which, label, move || {
                use futures::FutureExt;
                use std::ops::ControlFlow;
                let (mut g, ids) = build(&cc);
                let trace = Rc::new(RefCell::new(Vec::<Ev>::new()));
                let opts = if reverse { StreamOpts::new().rev() } else { StreamOpts::new() };
                let t1 = trace.clone();
                let step = move |id: usize| { let t = t1.clone(); async move { t.borrow_mut().push(Ev::Start(id)); YieldN(1).await; t.borrow_mut().push(Ev::End(id)); } };
                let lim = Some(2usize);
                let outcome: fn_graph::StreamOutcome<()> = match ep {
                    0 => block_on(g.fold_async((), |(), f| { let fu = step(f.id); async move { fu.await; }.boxed_local() })),
                    1 => block_on(g.fold_async_with((), opts, |(), f| { let fu = step(f.id); async move { fu.await; }.boxed_local() })),
                    2 => block_on(g.fold_async_mut((), |(), f| { let fu = step(f.id); async move { fu.await; }.boxed_local() })),
                    3 => block_on(g.fold_async_mut_with((), opts, |(), f| { let fu = step(f.id); async move { fu.await; }.boxed_local() })),
                    4 => block_on(g.try_fold_async((), |(), f| { let fu = step(f.id); async move { fu.await; Ok::<(), ()>(()) }.boxed_local() })).map_err(|_| "Err".to_string())?,
                    5 => block_on(g.try_fold_async_with((), opts, |(), f| { let fu = step(f.id); async move { fu.await; Ok::<(), ()>(()) }.boxed_local() })).map_err(|_| "Err".to_string())?,
                    6 => block_on(g.try_fold_async_mut((), |(), f| { let fu = step(f.id); async move { fu.await; Ok::<(), ()>(()) }.boxed_local() })).map_err(|_| "Err".to_string())?,
                    7 => block_on(g.try_fold_async_mut_with((), opts, |(), f| { let fu = step(f.id); async move { fu.await; Ok::<(), ()>(()) }.boxed_local() })).map_err(|_| "Err".to_string())?,
                    8 => block_on(g.for_each_concurrent(lim, |f: &Acc| step(f.id))),
                    9 => block_on(g.for_each_concurrent_mut(lim, |f: &mut Acc| step(f.id))),
                    10 => block_on(g.for_each_concurrent_mut_with(lim, opts, |f: &mut Acc| step(f.id))),
                    11 => block_on(g.try_for_each_concurrent_with(lim, opts, |f: &Acc| { let fu = step(f.id); async move { fu.await; Ok::<(), ()>(()) } })).map_err(|_| "Err".to_string())?,
                    12 => block_on(g.try_for_each_concurrent_mut_with(lim, opts, |f: &mut Acc| { let fu = step(f.id); async move { fu.await; Ok::<(), ()>(()) } })).map_err(|_| "Err".to_string())?,
                    13 => match block_on(g.try_for_each_concurrent_control(lim, |f: &Acc| { let fu = step(f.id); async move { fu.await; ControlFlow::<(), ()>::Continue(()) } })) { ControlFlow::Continue(o) => o, ControlFlow::Break(_) => return Err(format!("C07: {name} returned Break in a clean run ({})", cc.desc)) },
                    14 => match block_on(g.try_for_each_concurrent_control_with(lim, opts, |f: &Acc| { let fu = step(f.id); async move { fu.await; ControlFlow::<(), ()>::Continue(()) } })) { ControlFlow::Continue(o) => o, ControlFlow::Break(_) => return Err(format!("C07: {name} returned Break in a clean run ({})", cc.desc)) },
                    15 => match block_on(g.try_for_each_concurrent_control_mut(lim, |f: &mut Acc| { let fu = step(f.id); async move { fu.await; ControlFlow::<(), ()>::Continue(()) } })) { ControlFlow::Continue(o) => o, ControlFlow::Break(_) => return Err(format!("C07: {name} returned Break in a clean run ({})", cc.desc)) },
                    16 => match block_on(g.try_for_each_concurrent_control_mut_with(lim, opts, |f: &mut Acc| { let fu = step(f.id); async move { fu.await; ControlFlow::<(), ()>::Continue(()) } })) { ControlFlow::Continue(o) => o, ControlFlow::Break(_) => return Err(format!("C07: {name} returned Break in a clean run ({})", cc.desc)) },
                    17 => block_on(g.try_for_each_concurrent_mut(lim, |f: &mut Acc| { let fu = step(f.id); async move { fu.await; Ok::<(), ()>(()) } })).map_err(|_| "Err".to_string())?,
                    18 => block_on(g.try_for_each_concurrent(lim, |f: &Acc| { let fu = step(f.id); async move { fu.await; Ok::<(), ()>(()) } })).map_err(|_| "Err".to_string())?,
                    _ => block_on(g.for_each_concurrent_with(lim, opts, |f: &Acc| step(f.id))),
                };
                let tr = trace.borrow().clone();
                check_trace(which, &cc, &g, &ids, &tr, reverse, true, &[], name)?;
                let fold_family = ep < 8;
                if which == "C10" || which == "all" {
                    let mut inflight = 0usize; let mut mx = 0usize;
                    for e in &tr { match e { Ev::Start(_) => { inflight += 1; mx = mx.max(inflight); } Ev::End(_) => inflight -= 1 } }
                    let cap = if fold_family { 1 } else { 2 };
                    if mx > cap { return Err(format!("C10: {mx} user futures in flight in {name} (at most {cap} allowed) ({})", cc.desc)); }
                }
                if which == "C09" || which == "C03" || which == "all" {
                    let started: Vec<usize> = tr.iter().filter_map(|e| if let Ev::Start(i) = e { Some(*i) } else { None }).collect();
                    let proc_: Vec<usize> = outcome.fn_ids_processed.iter().map(|i| i.index()).collect();
                    if proc_ != started || outcome.state != StreamOutcomeState::Finished || !outcome.fn_ids_not_processed.is_empty() {
                        return Err(format!("C09: {name}: outcome {:?}/{:?}/{:?} vs started {started:?} in a clean run ({})", outcome.state, proc_, outcome.fn_ids_not_processed, cc.desc));
                    }
                }
                Ok(())
            })??;
        }
    }
    // ---- try_for_each_concurrent with a failing set
    if c.n > 0 && !stream_only {
        let cc = Case { n: c.n, accs: c.accs.clone(), edges: c.edges.clone(), desc: c.desc.clone() };
        let label = format!("try_for_each_concurrent on {}", c.desc);
        guarded(which, label, move || {
            let (g, ids) = build(&cc);
            let mut rng = Lcg(seed ^ 0x77);
            let failing: Vec<usize> = (0..cc.n).filter(|_| rng.below(4) == 0).collect();
            let trace = Rc::new(RefCell::new(Vec::<Ev>::new()));
            let fl = failing.clone();
            let res = block_on(g.try_for_each_concurrent(None, |f: &Acc| {
                let (t, id, fail) = (trace.clone(), f.id, fl.contains(&f.id));
                async move { t.borrow_mut().push(Ev::Start(id)); YieldN(1).await; t.borrow_mut().push(Ev::End(id)); if fail { Err(id) } else { Ok(()) } }
            }));
            let tr = trace.borrow().clone();
            let started: Vec<usize> = tr.iter().filter_map(|e| if let Ev::Start(i) = e { Some(*i) } else { None }).collect();
            let failed_started: Vec<usize> = failing.iter().cloned().filter(|i| started.contains(i)).collect();
            check_trace(which, &cc, &g, &ids, &tr, false, false, &failed_started, "try_for_each_concurrent")?;
            if which == "C07" || which == "all" {
                match res {
                    Ok(_) => if !failed_started.is_empty() { return Err(format!("C07: Ok returned although {failed_started:?} failed ({})", cc.desc)); },
                    Err((_, mut errs)) => { errs.sort(); let mut want = failed_started.clone(); want.sort(); if errs != want { return Err(format!("C07: errors {errs:?} vs failed functions {want:?} ({})", cc.desc)); } }
                }
            }
            Ok(())
        })??;
    }
    // ---- C20: two try_for_each_concurrent runs on one graph joined in ONE task (they share the task's poll, its waker and -
    // on a tokio runtime - its cooperative budget); each must report its own failures as if it were alone
    if c.n > 0 && !stream_only && (which == "C20" || which == "all") {
        let cc = Case { n: c.n, accs: c.accs.clone(), edges: c.edges.clone(), desc: c.desc.clone() };
        let label = format!("two joined try_for_each_concurrent runs on {}", c.desc);
        guarded(which, label, move || {
            let (g, ids) = build(&cc);
            let mut outs = vec![];
            let mk = |salt: u64| {
                let mut rng = Lcg(seed ^ salt);
                let failing: Vec<usize> = (0..cc.n).filter(|_| rng.below(3) == 0).collect();
                (Rc::new(RefCell::new(Vec::<Ev>::new())), failing)
            };
            let (ta, fa) = mk(0xa1);
            let (tb, fb) = mk(0xb2);
            let (fa2, fb2, ta2, tb2) = (fa.clone(), fb.clone(), ta.clone(), tb.clone());
            let (ra, rb) = block_on(async {
                let a = g.try_for_each_concurrent(None, |f: &Acc| { let (t, id, fail) = (ta2.clone(), f.id, fa2.contains(&f.id)); async move { t.borrow_mut().push(Ev::Start(id)); YieldN(1).await; t.borrow_mut().push(Ev::End(id)); if fail { Err(id) } else { Ok(()) } } });
                let b = g.try_for_each_concurrent(Some(2), |f: &Acc| { let (t, id, fail) = (tb2.clone(), f.id, fb2.contains(&f.id)); async move { t.borrow_mut().push(Ev::Start(id)); YieldN(2).await; t.borrow_mut().push(Ev::End(id)); if fail { Err(id) } else { Ok(()) } } });
                futures::join!(a, b)
            });
            outs.push((1, ta, fa, ra));
            outs.push((2, tb, fb, rb));
            for (k, t, failing, res) in outs {
                let tr = t.borrow().clone();
                let started: Vec<usize> = tr.iter().filter_map(|e| if let Ev::Start(i) = e { Some(*i) } else { None }).collect();
                let mut want: Vec<usize> = failing.iter().cloned().filter(|i| started.contains(i)).collect();
                want.sort();
                check_trace("all", &cc, &g, &ids, &tr, false, false, &want, "try_for_each_concurrent").map_err(|e| format!("C20: run {k} of two joined runs violates {e}"))?;
                let mut errs = match res { Ok(_) => vec![], Err((_, e)) => e };
                errs.sort();
                if errs != want { return Err(format!("C20: run {k} of two runs joined in one task reports errors {errs:?} but its failed functions are {want:?} ({})", cc.desc)); }
            }
            Ok(())
        })??;
    }
    // ---- C20: runs on ONE graph from several threads at the same moment, forward and reverse mixed (shared `&FnGraph`); every run
    // is judged by the single-run oracles as if it were alone
    if (which == "C20" || which == "all") && c.n > 0 && c.n <= 8 && !stream_only {
        let cc = Case { n: c.n, accs: c.accs.clone(), edges: c.edges.clone(), desc: c.desc.clone() };
        let label = format!("4 threads x 150 for_each_concurrent_with runs (2 forward, 2 reverse) on one shared graph: {}", c.desc);
        guarded(which, label, move || {
            let (g, ids) = build(&cc);
            let g = &g; let ids = &ids; let cc = &cc;
            let results: Vec<Result<(), String>> = std::thread::scope(|sc| {
                let hs: Vec<_> = (0..4usize).map(|t| sc.spawn(move || -> Result<(), String> {
                    let reverse = t % 2 == 1;
                    for it in 0..150usize {
                        let trace = Rc::new(RefCell::new(Vec::<Ev>::new()));
                        let opts = if reverse { StreamOpts::new().rev() } else { StreamOpts::new() };
                        let t2 = trace.clone();
                        let outcome = block_on(g.for_each_concurrent_with(None, opts, move |f: &Acc| { let (tr, id) = (t2.clone(), f.id); async move { tr.borrow_mut().push(Ev::Start(id)); YieldN((id % 2) as u32).await; tr.borrow_mut().push(Ev::End(id)); } }));
                        let tr = trace.borrow().clone();
                        check_trace("all", cc, g, ids, &tr, reverse, true, &[], "for_each_concurrent_with").map_err(|e| format!("C20: thread {t} run {it} (reverse={reverse}), one of several simultaneous runs on one graph, violates {e}"))?;
                        if outcome.state != StreamOutcomeState::Finished || outcome.fn_ids_processed.len() != cc.n { return Err(format!("C20: thread {t} run {it} (reverse={reverse}): outcome {:?} with {} of {} functions processed ({})", outcome.state, outcome.fn_ids_processed.len(), cc.n, cc.desc)); }
                    }
                    Ok(())
                })).collect();
                hs.into_iter().map(|h| h.join().unwrap_or_else(|_| Err(format!("C20: a thread running on the shared graph panicked ({})", cc.desc)))).collect()
            });
            for r in results { r?; }
            Ok(())
        })??;
    }
    // ---- the _mut try variants incl. the control wrapper, with a failing set (C07, C09)
    if c.n > 0 && !stream_only {
        for variant in 0..2 {
            let cc = Case { n: c.n, accs: c.accs.clone(), edges: c.edges.clone(), desc: c.desc.clone() };
            let label = format!("try_for_each_concurrent{}_mut on {}", if variant == 1 { "_control" } else { "" }, c.desc);
            guarded(which, label, move || {
                let (mut g, _ids) = build(&cc);
                let n = cc.n;
                let mut rng = Lcg(seed ^ 0x4242 ^ variant as u64);
                // fail leaves preferably: functions without successors among the user edges
                let failing: Vec<usize> = (0..n).filter(|i| !cc.edges.iter().any(|(a, _)| a == i) && rng.below(2) == 0).collect();
                let started = Rc::new(RefCell::new(Vec::<usize>::new()));
                let fl = failing.clone();
                let (outcome, errs, is_break): (fn_graph::StreamOutcome<()>, Vec<usize>, bool) = if variant == 0 {
                    let st = started.clone();
                    match block_on(g.try_for_each_concurrent_mut(None, move |f: &mut Acc| {
                        let (st, id, fail) = (st.clone(), f.id, fl.contains(&f.id));
                        async move { st.borrow_mut().push(id); YieldN(1).await; if fail { Err(id) } else { Ok(()) } }
                    })) { Ok(o) => (o, vec![], false), Err((o, e)) => (o, e, true) }
                } else {
                    let st = started.clone();
                    match block_on(g.try_for_each_concurrent_control_mut(None, move |f: &mut Acc| {
                        let (st, id, fail) = (st.clone(), f.id, fl.contains(&f.id));
                        async move { st.borrow_mut().push(id); YieldN(1).await; if fail { std::ops::ControlFlow::Break(id) } else { std::ops::ControlFlow::Continue(()) } }
                    })) { std::ops::ControlFlow::Continue(o) => (o, vec![], false), std::ops::ControlFlow::Break((o, e)) => (o, e, true) }
                };
                let started = started.borrow().clone();
                let mut failed_started: Vec<usize> = failing.iter().cloned().filter(|i| started.contains(i)).collect();
                failed_started.sort();
                let mut errs_sorted = errs.clone(); errs_sorted.sort();
                if which == "C07" || which == "all" {
                    if errs_sorted != failed_started { return Err(format!("C07: variant {variant}: errors {errs_sorted:?} vs failed functions {failed_started:?} ({})", cc.desc)); }
                    if !failed_started.is_empty() && !is_break { return Err(format!("C07: variant {variant}: Ok/Continue returned although {failed_started:?} failed ({})", cc.desc)); }
                }
                if which == "C09" || which == "all" {
                    let proc_: Vec<usize> = outcome.fn_ids_processed.iter().map(|i| i.index()).collect();
                    if proc_ != started { return Err(format!("C09: variant {variant}: processed {proc_:?} vs started {started:?} ({})", cc.desc)); }
                    let all = proc_.len() == n;
                    if all != (outcome.state == StreamOutcomeState::Finished) {
                        return Err(format!("C09: variant {variant}: state {:?} although {} of {n} functions were processed, not processed {:?} ({})", outcome.state, proc_.len(), outcome.fn_ids_not_processed, cc.desc));
                    }
                }
                Ok(())
            })??;
        }
    }
    Ok(())
}

/// C10 with limits far above the sizes of the random cases: 700 independent functions through the four
/// for_each_concurrent* / try_for_each_concurrent* families, limits up to 699; the number of user futures between
/// their first poll and their completion never exceeds the limit and every function runs.
fn wide_limits(which: &'static str) -> Result<(), String> {
    if which != "C10" && which != "all" { return Ok(()); }
    let n = 700usize;
    for limit in [3usize, 17, 128, 254, 255, 256, 257, 300, 512, 699] {
        for api in 0..4 {
            let c = Case { n, accs: (0..n).map(|i| Acc { id: i, reads: vec![], writes: vec![] }).collect(), edges: vec![], desc: "700 independent functions".into() };
            let (mut g, _ids) = build(&c);
            let st = Rc::new(RefCell::new((0usize, 0usize, 0usize))); // in flight, max, completed
            let step = { let st = st.clone(); move || { let st = st.clone(); async move {
                { let mut s = st.borrow_mut(); s.0 += 1; s.1 = s.1.max(s.0); }
                YieldN(3).await;
                { let mut s = st.borrow_mut(); s.0 -= 1; s.2 += 1; }
            } } };
            let name = ["for_each_concurrent", "for_each_concurrent_mut", "try_for_each_concurrent", "try_for_each_concurrent_mut"][api];
            match api {
                0 => { block_on(g.for_each_concurrent(Some(limit), |_f: &Acc| step())); }
                1 => { block_on(g.for_each_concurrent_mut(Some(limit), |_f: &mut Acc| step())); }
                2 => { let _ = block_on(g.try_for_each_concurrent(Some(limit), |_f: &Acc| { let fu = step(); async move { fu.await; Ok::<(), ()>(()) } })); }
                _ => { let _ = block_on(g.try_for_each_concurrent_mut(Some(limit), |_f: &mut Acc| { let fu = step(); async move { fu.await; Ok::<(), ()>(()) } })); }
            }
            let (_, mx, done) = *st.borrow();
            if mx > limit { return Err(format!("C10: {mx} user futures in flight with limit Some({limit}) in {name} on 700 independent functions")); }
            if done != n { return Err(format!("C10: {name}(Some({limit})) ran {done} of {n} independent functions")); }
        }
    }
    Ok(())
}

fn main() {
    let which: &'static str = match std::env::args().nth(1).as_deref() { Some("C01") => "C01", Some("C02") => "C02", Some("C03") => "C03", Some("C04") => "C04", Some("C05") => "C05", Some("C07") => "C07", Some("C09") => "C09", Some("C10") => "C10", Some("C20") => "C20", _ => "all" };
    let seed = std::env::var("VERIF_SEED").ok().and_then(|s| s.parse().ok()).unwrap_or(1u64);
    let mut rng = Lcg(seed.wrapping_mul(2654435761) + 11);
    let mut cases = vec![];
    cases.push(Case { n: 0, accs: vec![], edges: vec![], desc: "empty graph".into() });
    // wide fan-out: root -> 70 children -> sink
    {
        let n = 72; let mut edges = vec![]; for i in 1..71 { edges.push((0, i)); edges.push((i, 71)); }
        cases.push(Case { n, accs: (0..n).map(|i| Acc { id: i, reads: vec![], writes: vec![] }).collect(), edges, desc: "root -> 70 children -> sink".into() });
    }
    {
        let n = 202; let mut edges = vec![]; for i in 1..201 { edges.push((0, i)); edges.push((i, 201)); }
        cases.push(Case { n, accs: (0..n).map(|i| Acc { id: i, reads: vec![], writes: vec![] }).collect(), edges, desc: "root -> 200 children -> sink".into() });
    }
    cases.push(Case { n: 300, accs: (0..300).map(|i| Acc { id: i, reads: vec![], writes: vec![] }).collect(), edges: (0..299).map(|i| (i, i + 1)).collect(), desc: "chain of 300".into() });
    cases.push(Case { n: 4200, accs: (0..4200).map(|i| Acc { id: i, reads: vec![], writes: vec![] }).collect(), edges: std::iter::once((0usize, 4100usize)).chain((4100..4199).map(|i| (i, i + 1))).collect(), desc: "4100 independent functions + a chain of 100 behind function 0".into() });
    // large fan-in / fan-out
    cases.push(Case { n: 301, accs: (0..301).map(|i| Acc { id: i, reads: vec![], writes: vec![] }).collect(), edges: (0..300).map(|i| (i, 300)).collect(), desc: "fan-in: 300 functions -> 1 sink".into() });
    cases.push(Case { n: 301, accs: (0..301).map(|i| Acc { id: i, reads: vec![], writes: vec![] }).collect(), edges: (1..301).map(|i| (0, i)).collect(), desc: "fan-out: 1 root -> 300 functions".into() });
    // dependents declared before their dependencies
    cases.push(Case { n: 3, accs: (0..3).map(|i| Acc { id: i, reads: vec![], writes: vec![] }).collect(), edges: vec![(2, 1), (1, 0), (2, 0)], desc: "deploy(0) <- test(1) <- build(2), dependents declared first".into() });
    for round in 0..120 {
        let n = 1 + rng.below(6) as usize;
        let mut label: Vec<usize> = (0..n).collect();
        for i in (1..n).rev() { let j = rng.below(i as u64 + 1) as usize; label.swap(i, j); }
        let accs: Vec<Acc> = (0..n).map(|i| { let mut reads = vec![]; let mut writes = vec![]; for t in 0..3u8 { match rng.below(5) { 0 => reads.push(t), 1 => writes.push(t), _ => {} } } Acc { id: i, reads, writes } }).collect();
        let mut edges = vec![];
        for i in 0..n { for j in (i + 1)..n { if rng.below(100) < 30 { edges.push((label[i], label[j])); } } }
        let desc = format!("random #{round}: n={n} accesses={:?} logic edges={edges:?}", accs.iter().map(|a| (a.reads.clone(), a.writes.clone())).collect::<Vec<_>>());
        cases.push(Case { n, accs, edges, desc });
    }
    let tokio_mode = std::env::var("VERIF_EXECUTOR").as_deref() == Ok("tokio");
    READY_ONLY.store(false, std::sync::atomic::Ordering::Relaxed);
    if let Err(e) = budget_sweep(which) { println!("VIOLATION {e}"); std::process::exit(1); }
    if let Err(e) = wide_limits(which) { println!("VIOLATION {e}"); std::process::exit(1); }
    for (k, c) in cases.into_iter().enumerate() {
        READY_ONLY.store(tokio_mode && (c.n > 50 || k % 2 == 0), std::sync::atomic::Ordering::Relaxed);
        if let Err(e) = run_case(which, c, seed.wrapping_add(k as u64)) {
            println!("VIOLATION {e}");
            std::process::exit(1);
        }
    }
    println!("OK: {which} oracles hold on all explored runs");
}
