//! C08 replay (feature interruptible): bounded native search over graphs x API x order (and the order in which the
//! StreamOpts builder methods are called) x strategy x include flag x the moment the signal is sent. Oracles from the
//! statement: after the signal at most `bound` more functions start (FinishCurrent: 1, 0 when the include flag is
//! false or the signal was pending before the call; PollNextN(n>=1): n; PollNextN(0) like FinishCurrent; the
//! interruptible stream counts yielded items and ignores the include flag); functions already started complete and
//! are exactly the ones reported as processed; the call returns; NonInterruptible / IgnoreInterruptions run everything.
//!
//! "Starts": for the fold / for_each families a function counts as started when the scheduler takes it out of the
//! ready queue (the moment it enters `fn_ids_processed`; observed through the `verif_hooks` event log, in which this
//! harness interleaves its Signal event). With `--literal` the first poll of the user's future is counted instead: under
//! that reading `for_each_concurrent*` can exceed the bound by the items futures' ForEachConcurrent had dequeued
//! before the signal but not polled yet (see DESIGN.md section 14); that mode is informational and not registered.
use fn_graph::{FnGraph, FnGraphBuilder, FnId, StreamOpts};
use fn_graph_replay::*;
use futures::{FutureExt, StreamExt};
use interruptible::{InterruptSignal, InterruptibilityState, PollOutcome};
use std::cell::RefCell;
use std::future::Future;
use std::pin::Pin;
use std::rc::Rc;
use std::task::{Context, Poll};
use tokio::sync::mpsc;

struct Lcg(u64);
impl Lcg {
    fn next(&mut self) -> u64 { self.0 = self.0.wrapping_mul(6364136223846793005).wrapping_add(1442695040888963407); self.0 >> 33 }
    fn below(&mut self, n: u64) -> u64 { self.next() % n }
}

struct YieldN(u32);
impl Future for YieldN {
    type Output = ();
    fn poll(mut self: Pin<&mut Self>, cx: &mut Context<'_>) -> Poll<()> {
        if self.0 == 0 { Poll::Ready(()) } else { self.0 -= 1; cx.waker().wake_by_ref(); Poll::Pending }
    }
}

#[derive(Clone, Copy, Debug, PartialEq)]
enum Ev { Start(usize), End(usize), Signal }
#[derive(Clone, Copy, Debug, PartialEq)]
enum Api { Fold, FoldMut, TryFold, ForEach, ForEachMut, TryForEach, TryForEachMut, Stream }
#[derive(Clone, Copy, Debug, PartialEq)]
enum Order { Forward, RevFirst, RevLast }
#[derive(Clone, Copy, Debug, PartialEq)]
enum Strat { Non, Ignore, Finish, NextN(u64) }
/// the signal is sent before the call (and, in the Closed variants, the interrupt channel is closed before the call as well:
/// every sender dropped / the receiver closed - the buffered signal is still to be honoured), or from inside the k-th
/// function that starts; EarlierRun: the caller's state is shared between calls (`reborrow()`), an earlier call on the same
/// graph was interrupted through it, and this call gets the state as that call left it
#[derive(Clone, Copy, Debug, PartialEq)]
enum When { Before, BeforeSendersDropped, BeforeReceiverClosed, InStart(usize), EarlierRun }

#[derive(Clone)]
struct Case { n: usize, edges: Vec<(usize, usize)>, desc: String }

fn build(c: &Case) -> FnGraph<Acc> {
    let mut b = FnGraphBuilder::new();
    let ids: Vec<FnId> = (0..c.n).map(|i| b.add_fn(Acc { id: i, reads: vec![], writes: vec![] })).collect();
    for &(x, y) in &c.edges { b.add_logic_edge(ids[x], ids[y]).unwrap(); }
    b.build()
}

struct Ctx { trace: RefCell<Vec<Ev>>, tx: RefCell<Option<mpsc::Sender<InterruptSignal>>>, when: When, yields: RefCell<Lcg> }
impl Ctx {
    fn on_start(&self, id: usize) -> u32 {
        let mut t = self.trace.borrow_mut();
        let k = t.iter().filter(|e| matches!(e, Ev::Start(_))).count();
        t.push(Ev::Start(id));
        if self.when == When::InStart(k) { let _ = self.tx.borrow().as_ref().unwrap().try_send(InterruptSignal); t.push(Ev::Signal); fn_graph::verif_hooks::event_log_push_user(1, 0); }
        self.yields.borrow_mut().below(3) as u32
    }
    fn on_end(&self, id: usize) { self.trace.borrow_mut().push(Ev::End(id)); }
}

fn new_state(strat: Strat, rx: mpsc::Receiver<InterruptSignal>) -> InterruptibilityState<'static, 'static> {
    match strat {
        Strat::Non => InterruptibilityState::new_non_interruptible(),
        Strat::Ignore => InterruptibilityState::new_ignore_interruptions(rx.into()),
        Strat::Finish => InterruptibilityState::new_finish_current(rx.into()),
        Strat::NextN(n) => InterruptibilityState::new_poll_next_n(rx.into(), n),
    }
}

fn opts<'a, 'b>(order: Order, include: bool, st: InterruptibilityState<'a, 'b>) -> StreamOpts<'a, 'b> {
    match order {
        Order::Forward => StreamOpts::new().interruptibility_state(st).interrupted_next_item_include(include),
        Order::RevFirst => StreamOpts::new().rev().interruptibility_state(st).interrupted_next_item_include(include),
        Order::RevLast => StreamOpts::new().interruptibility_state(st).interrupted_next_item_include(include).rev(),
    }
}

/// how many functions may start after the signal
fn bound(api: Api, strat: Strat, include: bool, when: When, n: usize) -> usize {
    match strat {
        Strat::Non | Strat::Ignore => n,
        Strat::NextN(k) if k >= 1 => k as usize,
        _ => match when {
            When::Before | When::BeforeSendersDropped | When::BeforeReceiverClosed | When::EarlierRun => 0,
            When::InStart(_) => if include || api == Api::Stream { 1 } else { 0 },
        },
    }
}

fn run(c: &Case, api: Api, order: Order, strat: Strat, include: bool, when: When, seed: u64) -> (Vec<Ev>, Option<Vec<usize>>, usize, Option<bool>) {
    let _ = fn_graph::verif_hooks::event_log_take();
    let (tx, mut rx) = mpsc::channel::<InterruptSignal>(4);
    let ctx = Rc::new(Ctx { trace: RefCell::new(vec![]), tx: RefCell::new(Some(tx)), when, yields: RefCell::new(Lcg(seed)) });
    if matches!(when, When::Before | When::BeforeSendersDropped | When::BeforeReceiverClosed) {
        ctx.tx.borrow().as_ref().unwrap().try_send(InterruptSignal).unwrap(); ctx.trace.borrow_mut().push(Ev::Signal); fn_graph::verif_hooks::event_log_push_user(1, 0);
        if when == When::BeforeSendersDropped { ctx.tx.borrow_mut().take(); }
        if when == When::BeforeReceiverClosed { rx.close(); }
    }
    let mut state = new_state(strat, rx);
    let mut g = build(c);
    if when == When::EarlierRun {
        // an earlier call through the same state: the signal is waiting, the call is interrupted at once and returns
        ctx.tx.borrow().as_ref().unwrap().try_send(InterruptSignal).unwrap();
        let _ = futures::executor::block_on(g.for_each_concurrent_with(None, opts(Order::Forward, true, state.reborrow()), |_f| async {}));
        let _ = fn_graph::verif_hooks::event_log_take();
        ctx.trace.borrow_mut().push(Ev::Signal); fn_graph::verif_hooks::event_log_push_user(1, 0);
    }
    let o = opts(order, include, state.reborrow());
    let cx = ctx.clone();
    let finished: std::cell::Cell<Option<bool>> = std::cell::Cell::new(None);
    let fin = &finished;
    let processed: Option<Vec<FnId>> = futures::executor::block_on(async {
        match api {
            Api::Fold => { let oc = g.fold_async_with((), o, |(), f| { let (c, id) = (cx.clone(), f.id); async move { let k = c.on_start(id); YieldN(k).await; c.on_end(id); }.boxed_local() }).await; fin.set(Some(oc.state == fn_graph::StreamOutcomeState::Finished)); Some(oc.fn_ids_processed) },
            Api::FoldMut => { let oc = g.fold_async_mut_with((), o, |(), f| { let (c, id) = (cx.clone(), f.id); async move { let k = c.on_start(id); YieldN(k).await; c.on_end(id); }.boxed_local() }).await; fin.set(Some(oc.state == fn_graph::StreamOutcomeState::Finished)); Some(oc.fn_ids_processed) },
            Api::TryFold => g.try_fold_async_with((), o, |(), f| { let (c, id) = (cx.clone(), f.id); async move { let k = c.on_start(id); YieldN(k).await; c.on_end(id); Ok::<(), ()>(()) }.boxed_local() }).await.ok().map(|x| x.fn_ids_processed),
            Api::ForEach => { let oc = g.for_each_concurrent_with(None, o, |f| { let (c, id) = (cx.clone(), f.id); async move { let k = c.on_start(id); YieldN(k).await; c.on_end(id); } }).await; fin.set(Some(oc.state == fn_graph::StreamOutcomeState::Finished)); Some(oc.fn_ids_processed) },
            Api::ForEachMut => { let oc = g.for_each_concurrent_mut_with(None, o, |f| { let (c, id) = (cx.clone(), f.id); async move { let k = c.on_start(id); YieldN(k).await; c.on_end(id); } }).await; fin.set(Some(oc.state == fn_graph::StreamOutcomeState::Finished)); Some(oc.fn_ids_processed) },
            Api::TryForEach => Some(match g.try_for_each_concurrent_with(None, o, |f| { let (c, id) = (cx.clone(), f.id); async move { let k = c.on_start(id); YieldN(k).await; c.on_end(id); Ok::<(), ()>(()) } }).await { Ok(x) => x, Err((x, _)) => x }.fn_ids_processed),
            Api::TryForEachMut => Some(match g.try_for_each_concurrent_mut_with(None, o, |f| { let (c, id) = (cx.clone(), f.id); async move { let k = c.on_start(id); YieldN(k).await; c.on_end(id); Ok::<(), ()>(()) } }).await { Ok(x) => x, Err((x, _)) => x }.fn_ids_processed),
            Api::Stream => {
                let mut s = std::pin::pin!(g.stream_with_interruptible(o));
                while let Some(po) = s.next().await {
                    match po {
                        PollOutcome::NoInterrupt(f) | PollOutcome::Interrupted(Some(f)) => { let id = f.id; let k = cx.on_start(id); YieldN(k).await; cx.on_end(id); drop(f); }
                        PollOutcome::Interrupted(None) => {}
                    }
                }
                None
            }
        }
    });
    let t = ctx.trace.borrow().clone();
    // functions taken out of the ready queue after the signal was sent
    let log = fn_graph::verif_hooks::event_log_take();
    let dequeued_after = match log.iter().position(|e| matches!(e, fn_graph::verif_hooks::HookEvent::User(1, _))) {
        Some(p) => log[p..].iter().filter(|e| matches!(e, fn_graph::verif_hooks::HookEvent::Dequeued(_))).count(),
        None => 0,
    };
    (t, processed.map(|p| { let mut v: Vec<usize> = p.iter().map(|i| i.index()).collect(); v.sort(); v }), dequeued_after, finished.get())
}

fn main() {
    let literal = std::env::args().any(|a| a == "--literal");
    // `c08_interrupt C09`: only the outcome oracle of C09 under interruption (state Finished iff every function was processed)
    let c09_only = std::env::args().any(|a| a == "C09");
    let seed = std::env::var("VERIF_SEED").ok().and_then(|s| s.parse().ok()).unwrap_or(1u64);
    let mut rng = Lcg(seed.wrapping_mul(1099511628211) + 7);
    let mut cases = vec![
        Case { n: 4, edges: vec![(0, 1), (1, 2), (2, 3)], desc: "chain 0->1->2->3".into() },
        Case { n: 4, edges: vec![(0, 1), (0, 2), (1, 3), (2, 3)], desc: "diamond".into() },
        Case { n: 5, edges: vec![], desc: "5 independent functions".into() },
    ];
    for round in 0..12 {
        let n = 2 + rng.below(5) as usize;
        let mut edges = vec![];
        for i in 0..n { for j in (i + 1)..n { if rng.below(100) < 30 { edges.push((i, j)); } } }
        cases.push(Case { n, edges: edges.clone(), desc: format!("random #{round}: n={n} edges={edges:?}") });
    }
    let apis = [Api::Fold, Api::FoldMut, Api::TryFold, Api::ForEach, Api::ForEachMut, Api::TryForEach, Api::TryForEachMut, Api::Stream];
    let mut runs = 0usize;
    for (ci, c) in cases.iter().enumerate() {
        for api in apis { for order in [Order::Forward, Order::RevFirst, Order::RevLast] { for strat in [Strat::Non, Strat::Ignore, Strat::Finish, Strat::NextN(0), Strat::NextN(1), Strat::NextN(2)] { for include in [true, false] {
            let mut whens = vec![When::Before, When::BeforeSendersDropped, When::BeforeReceiverClosed, When::InStart(0)];
            if c.n > 2 { whens.push(When::InStart(1)); }
            if matches!(strat, Strat::Finish | Strat::NextN(0)) && api != Api::Stream { whens.push(When::EarlierRun); }
            for when in whens {
                runs += 1;
                let label = format!("{api:?} / {order:?} / {strat:?} / include={include} / signal {when:?} on {}", c.desc);
                let cc = c.clone();
                let (tx, rx) = std::sync::mpsc::channel();
                let s2 = seed ^ (ci as u64 * 31 + runs as u64);
                let h = std::thread::spawn(move || { let r = std::panic::catch_unwind(std::panic::AssertUnwindSafe(|| run(&cc, api, order, strat, include, when, s2))); let _ = tx.send(()); r });
                let (trace, processed, dequeued_after, finished) = match recv_unless_idle(&rx, 10, 900) {
                    Some(()) => match h.join().unwrap() { Ok(x) => x, Err(_) => { println!("VIOLATION (C08: panic) {label}"); std::process::exit(1); } },
                    None => { println!("VIOLATION (C08: the call did not return: no progress for 10 s, the thread is parked) {label}"); std::process::exit(1); }
                };
                let started: Vec<usize> = trace.iter().filter_map(|e| if let Ev::Start(i) = e { Some(*i) } else { None }).collect();
                let ended: Vec<usize> = trace.iter().filter_map(|e| if let Ev::End(i) = e { Some(*i) } else { None }).collect();
                let first_polled_after = match trace.iter().position(|e| *e == Ev::Signal) { Some(p) => trace[p..].iter().filter(|e| matches!(e, Ev::Start(_))).count(), None => 0 };
                // the stream API hands the items to the caller: there a start IS the yielded item
                let after = if literal || api == Api::Stream { first_polled_after } else { dequeued_after };
                let b = bound(api, strat, include, when, c.n);
                if let (Some(fin), Some(p)) = (finished, &processed) {
                    if fin != (p.len() == c.n) { println!("VIOLATION (C09: state is {} although {} of {} functions were processed) {label} trace={trace:?}", if fin { "Finished" } else { "not Finished" }, p.len(), c.n); std::process::exit(1); }
                }
                if c09_only { continue; }
                if trace.contains(&Ev::Signal) && after > b { println!("VIOLATION (C08: {after} functions started after the signal, bound {b}) {label} trace={trace:?}"); std::process::exit(1); }
                let mut s_sorted = started.clone(); s_sorted.sort();
                let mut e_sorted = ended.clone(); e_sorted.sort();
                if s_sorted != e_sorted { println!("VIOLATION (C08: a started function was not completed) {label} trace={trace:?}"); std::process::exit(1); }
                if let Some(p) = &processed { if *p != s_sorted { println!("VIOLATION (C08: processed {p:?} differs from the functions started {s_sorted:?}) {label} trace={trace:?}"); std::process::exit(1); } }
                if matches!(strat, Strat::Non | Strat::Ignore) && s_sorted != (0..c.n).collect::<Vec<_>>() { println!("VIOLATION (C08: {strat:?} but only {s_sorted:?} ran) {label} trace={trace:?}"); std::process::exit(1); }
                // when no signal was ever sent (the k-th start never happened), everything must have run
                if !trace.contains(&Ev::Signal) && s_sorted != (0..c.n).collect::<Vec<_>>() { println!("VIOLATION (C08: no signal sent but only {s_sorted:?} ran) {label}"); std::process::exit(1); }
            }
        } } } }
    }
    println!("OK c08_interrupt: {runs} runs on {} graphs", cases.len());
}
