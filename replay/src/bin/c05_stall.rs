//! C05 replay: graph A, B roots, B -> C. Take A and B, poll -> Pending, drop A then B, poll again.
//! Property: the second poll must not return Pending with no wake-up signalled while C is eligible.
use fn_graph::FnGraphBuilder;
use fn_graph_replay::*;
use futures::stream::StreamExt;
use std::task::Poll;

/// fan-in of `width` functions into one sink (forward) / fan-out streamed in reverse: take every ready function, see
/// Pending, drop ALL FnRefs between two polls, then poll only when a wake-up was signalled: the sink must be yielded
fn wide(width: usize, reverse: bool) {
    let mut b = FnGraphBuilder::new();
    let ids: Vec<_> = (0..=width).map(|i| b.add_fn(Acc { id: i, reads: vec![], writes: vec![] })).collect();
    for i in 0..width { if reverse { b.add_logic_edge(ids[width], ids[i]).unwrap(); } else { b.add_logic_edge(ids[i], ids[width]).unwrap(); } }
    let g = b.build();
    let (w, cnt) = counting_waker();
    let mut cx = ctx(&w);
    let opts = if reverse { fn_graph::StreamOpts::new().rev() } else { fn_graph::StreamOpts::new() };
    let mut s = Box::pin(g.stream_with(opts));
    let mut held = vec![];
    let mut yielded = 0usize;
    let mut polls_without_wake = 0;
    loop {
        let before = wakes(&cnt);
        match s.poll_next_unpin(&mut cx) {
            Poll::Ready(Some(r)) => { yielded += 1; held.push(r); }
            Poll::Ready(None) => break,
            Poll::Pending => {
                if held.is_empty() {
                    if wakes(&cnt) == before {
                        polls_without_wake += 1;
                        if polls_without_wake > 1 { println!("VIOLATION: width {width} reverse={reverse}: every FnRef is dropped, the stream is Pending after yielding {yielded} of {} functions and no wake-up was signalled", width + 1); std::process::exit(1); }
                    }
                } else {
                    polls_without_wake = 0;
                    let w0 = wakes(&cnt);
                    held.clear();
                    if wakes(&cnt) == w0 { println!("VIOLATION: width {width} reverse={reverse}: {} FnRefs dropped, no wake-up signalled", yielded); std::process::exit(1); }
                }
            }
        }
        if yielded > width + 1 { println!("VIOLATION: width {width}: more items than functions"); std::process::exit(1); }
    }
    if yielded != width + 1 { println!("VIOLATION: width {width} reverse={reverse}: stream ended after {yielded} of {} functions", width + 1); std::process::exit(1); }
}

/// `width` functions and one more (`late`) all precede one sink. Every offered FnRef is taken, the `width` ones are dropped in
/// one go while `late` is kept: the sink must NOT be handed out (C02) and, once `late` is dropped, must be (C05), exactly once (C03)
/// `c05_stall C02` / `C03`: only violations of that property are reported (the others end the scenario quietly)
macro_rules! viol { ($tag:expr, $($arg:tt)*) => {{ if wanted($tag) { println!($($arg)*); std::process::exit(1); } else { return; } }} }
fn wanted(tag: &str) -> bool { match std::env::args().nth(1) { Some(w) if w.starts_with('C') => tag.contains(&w) || (w == "C04" && tag.contains("C05")), _ => true } }

fn wide_partial(width: usize, reverse: bool) {
    let mut b = FnGraphBuilder::new();
    let ids: Vec<_> = (0..width + 2).map(|i| b.add_fn(Acc { id: i, reads: vec![], writes: vec![] })).collect();
    let (late, sink) = (width, width + 1);
    for i in 0..=width { if reverse { b.add_logic_edge(ids[sink], ids[i]).unwrap(); } else { b.add_logic_edge(ids[i], ids[sink]).unwrap(); } }
    let g = b.build();
    let (w, cnt) = counting_waker();
    let mut cx = ctx(&w);
    let opts = if reverse { fn_graph::StreamOpts::new().rev() } else { fn_graph::StreamOpts::new() };
    let mut s = Box::pin(g.stream_with(opts));
    let mut held = vec![];
    let desc = format!("{width} functions + `late` before one sink, reverse={reverse}");
    loop {
        match s.poll_next_unpin(&mut cx) {
            Poll::Ready(Some(r)) => { if r.id == sink { viol!("C02", "VIOLATION (C02): {desc}: the sink was handed out before any of its {} predecessors was dropped", width + 1); } held.push(r); }
            Poll::Ready(None) => { viol!("C05", "VIOLATION (C05): {desc}: the stream ended after {} functions", held.len()); }
            Poll::Pending => break,
        }
    }
    if held.len() != width + 1 { viol!("C05", "VIOLATION (C05): {desc}: {} of the {} functions without predecessors were offered before Pending", held.len(), width + 1); }
    // drop everything but `late`, in the order offered
    let mut kept = None;
    for r in held.drain(..) { if r.id == late { kept = Some(r); } else { drop(r); } }
    for _ in 0..3 {
        match s.poll_next_unpin(&mut cx) {
            Poll::Ready(Some(r)) => { viol!("C02", "VIOLATION (C02): {desc}: function {} was handed out while its predecessor `late` ({late}) is still held by the caller", r.id); }
            Poll::Ready(None) => { viol!("C05", "VIOLATION (C05): {desc}: the stream ended while the sink was never handed out"); }
            Poll::Pending => {}
        }
    }
    let w0 = wakes(&cnt);
    drop(kept);
    if wakes(&cnt) == w0 { viol!("C05", "VIOLATION (C05): {desc}: `late` dropped, no wake-up signalled"); }
    match s.poll_next_unpin(&mut cx) {
        Poll::Ready(Some(r)) if r.id == sink => drop(r),
        Poll::Ready(Some(r)) => { viol!("C03", "VIOLATION (C03): {desc}: function {} handed out instead of the sink", r.id); }
        _ => { viol!("C05", "VIOLATION (C05): {desc}: every predecessor of the sink is dropped but the sink is not handed out"); }
    }
    match s.poll_next_unpin(&mut cx) {
        Poll::Ready(None) => {}
        Poll::Ready(Some(r)) => { viol!("C03", "VIOLATION (C03): {desc}: function {} handed out after all {} functions were", r.id, width + 2); }
        Poll::Pending => { viol!("C05", "VIOLATION (C05): {desc}: all functions were handed out and dropped but the stream does not end"); }
    };
}

// ---- a waker whose `clone` runs a one-shot hook: tokio clones the task's waker while it registers it with a channel, i.e. INSIDE
// poll_next - the hook drops a held FnRef at exactly that moment, which is what a drop from another thread can do
struct HookW { wakes: std::sync::atomic::AtomicUsize }
thread_local! { static ON_CLONE: std::cell::RefCell<Option<(usize, Box<dyn FnOnce()>)>> = const { std::cell::RefCell::new(None) }; }
fn hw_clone(p: *const ()) -> std::task::RawWaker {
    let fire = ON_CLONE.with(|h| { let mut h = h.borrow_mut(); match h.as_mut() { Some((n, _)) if *n <= 1 => h.take().map(|x| x.1), Some((n, _)) => { *n -= 1; None } None => None } });
    if let Some(f) = fire { f(); }
    unsafe { std::sync::Arc::increment_strong_count(p as *const HookW) };
    std::task::RawWaker::new(p, &HW_VT)
}
fn hw_wake(p: *const ()) { let a = unsafe { std::sync::Arc::from_raw(p as *const HookW) }; a.wakes.fetch_add(1, std::sync::atomic::Ordering::SeqCst); }
fn hw_wake_by_ref(p: *const ()) { let a = unsafe { &*(p as *const HookW) }; a.wakes.fetch_add(1, std::sync::atomic::Ordering::SeqCst); }
fn hw_drop(p: *const ()) { unsafe { drop(std::sync::Arc::from_raw(p as *const HookW)) }; }
static HW_VT: std::task::RawWakerVTable = std::task::RawWakerVTable::new(hw_clone, hw_wake, hw_wake_by_ref, hw_drop);

/// roots a(0), b(1); b -> c(2). a and b are taken, a is dropped, and b's FnRef is dropped from inside the n-th waker registration
/// of the next poll (n = 1, 2): afterwards either a wake-up was signalled or c has been yielded; then the stream must end
fn drop_inside_poll(nth_clone: usize, reverse: bool) {
    let mut bld = FnGraphBuilder::new();
    let ids: Vec<_> = (0..3).map(|i| bld.add_fn(Acc { id: i, reads: vec![], writes: vec![] })).collect();
    if reverse { bld.add_logic_edge(ids[2], ids[1]).unwrap(); } else { bld.add_logic_edge(ids[1], ids[2]).unwrap(); }
    // (leaked: the hook that owns an FnRef lives in a thread-local and must be 'static)
    let g: &'static fn_graph::FnGraph<Acc> = Box::leak(Box::new(bld.build()));
    let desc = format!("a, b -> c (reverse={reverse}); b's FnRef dropped inside the {nth_clone}. waker registration of a poll");
    let hw = std::sync::Arc::new(HookW { wakes: std::sync::atomic::AtomicUsize::new(0) });
    let waker = unsafe { std::task::Waker::from_raw(std::task::RawWaker::new(std::sync::Arc::into_raw(hw.clone()) as *const (), &HW_VT)) };
    let mut cx = std::task::Context::from_waker(&waker);
    let opts = if reverse { fn_graph::StreamOpts::new().rev() } else { fn_graph::StreamOpts::new() };
    let mut s = Box::pin(g.stream_with(opts));
    let mut held = vec![];
    loop { match s.poll_next_unpin(&mut cx) { Poll::Ready(Some(r)) => held.push(r), Poll::Ready(None) => viol!("C05", "VIOLATION (C05): {desc}: the stream ended early"), Poll::Pending => break } }
    if held.len() != 2 { viol!("C05", "VIOLATION (C05): {desc}: {} functions offered before Pending, expected the two without predecessors", held.len()); }
    let b_pos = held.iter().position(|r| r.id == 1).unwrap();
    let b = held.remove(b_pos);
    held.clear(); // a dropped between polls
    let cell = std::rc::Rc::new(std::cell::RefCell::new(Some(b)));
    let c2 = cell.clone();
    ON_CLONE.with(|h| *h.borrow_mut() = Some((nth_clone, Box::new(move || { c2.borrow_mut().take(); }))));
    let mut yielded_c = false;
    for _ in 0..4 {
        let w0 = hw.wakes.load(std::sync::atomic::Ordering::SeqCst);
        match s.poll_next_unpin(&mut cx) {
            Poll::Ready(Some(r)) => { if r.id != 2 { viol!("C03", "VIOLATION (C03): {desc}: function {} handed out again", r.id); } yielded_c = true; drop(r); }
            Poll::Ready(None) => break,
            Poll::Pending => {
                // the hook may not have fired yet (fewer registrations in this poll): then b is still held and Pending is right
                if cell.borrow().is_some() { ON_CLONE.with(|h| *h.borrow_mut() = None); cell.borrow_mut().take(); continue; }
                if hw.wakes.load(std::sync::atomic::Ordering::SeqCst) == w0 && !yielded_c { viol!("C05", "VIOLATION (C05): {desc}: every predecessor's FnRef is dropped, the stream is Pending and no wake-up was signalled: c is never yielded"); }
            }
        }
    }
    ON_CLONE.with(|h| *h.borrow_mut() = None);
    if !yielded_c { viol!("C05", "VIOLATION (C05): {desc}: c was not yielded within four polls although each Pending came with a wake-up"); }
}

fn main() {
    for nth in [1usize, 2, 3] { for reverse in [false, true] {
        if std::panic::catch_unwind(|| drop_inside_poll(nth, reverse)).is_err() && wanted("C04/C05") { println!("VIOLATION (C04/C05): the stream panicked when an FnRef was dropped inside a poll"); std::process::exit(1); }
    } }
    for width in [3usize, 100, 128, 129, 200, 300, 1000] {
        for reverse in [false, true] {
            if std::panic::catch_unwind(|| wide(width, reverse)).is_err() { println!("VIOLATION (C04/C05): the stream panicked: width {width} reverse={reverse}"); std::process::exit(1); }
        }
    }
    for width in [3usize, 129, 1030, 2100] {
        for reverse in [false, true] {
            // a panic inside poll_next (e.g. a count driven below zero in a build with overflow checks) is a violation too
            if std::panic::catch_unwind(|| wide_partial(width, reverse)).is_err() && wanted("C04/C05") {
                println!("VIOLATION (C04/C05): the stream panicked: {width} functions + `late` before one sink, reverse={reverse}, FnRefs of the {width} dropped in one go");
                std::process::exit(1);
            }
        }
    }
    let mut b = FnGraphBuilder::new();
    let [a, bb, c] = b.add_fns([
        Acc { id: 0, reads: vec![], writes: vec![] },
        Acc { id: 1, reads: vec![], writes: vec![] },
        Acc { id: 2, reads: vec![], writes: vec![] },
    ]);
    let _ = a;
    b.add_logic_edge(bb, c).unwrap();
    let g = b.build();
    let (w, cnt) = counting_waker();
    let mut cx = ctx(&w);
    let mut s = Box::pin(g.stream());
    let mut next_root = |k: &str| {
        let before = wakes(&cnt);
        match s.poll_next_unpin(&mut cx) {
            Poll::Ready(Some(r)) => r,
            Poll::Ready(None) => { println!("VIOLATION: the stream ended before yielding the {k} function without predecessors"); std::process::exit(1) }
            Poll::Pending => { println!("VIOLATION: poll returned Pending (wake-ups signalled during the poll: {}) although the {k} function without predecessors (A and B have none) was never yielded", wakes(&cnt) - before); std::process::exit(1) }
        }
    };
    let r1 = next_root("first");
    let r2 = next_root("second");
    if !matches!(s.poll_next_unpin(&mut cx), Poll::Pending) { println!("VIOLATION: a third function was yielded while B, the only predecessor of C, is still held"); std::process::exit(1); }
    let w0 = wakes(&cnt);
    // drop in the order (A, B): the notification that releases C is the second one
    let (first, second) = if r1.id == 0 { (r1, r2) } else { (r2, r1) };
    drop(first);
    drop(second);
    let w1 = wakes(&cnt);
    let p = s.poll_next_unpin(&mut cx);
    let w2 = wakes(&cnt);
    match p {
        Poll::Ready(Some(r)) => { println!("OK: C yielded (id {}) after {} wake(s)", r.id, w1 - w0); }
        Poll::Ready(None) => { println!("VIOLATION: stream ended early"); std::process::exit(1); }
        Poll::Pending => {
            if w2 > w1 { println!("OK: pending but a wake-up was signalled"); }
            else { println!("VIOLATION: poll returned Pending, C's only predecessor was dropped, wake-ups since the drops were consumed: {}", w2 - w1); std::process::exit(1); }
        }
    }
}
