//! C05 replay: graph A, B roots, B -> C. Take A and B, poll -> Pending, drop A then B, poll again.
//! Property: the second poll must not return Pending with no wake-up signalled while C is eligible.
use fn_graph::FnGraphBuilder;
use fn_graph_replay::*;
use futures::stream::StreamExt;
use std::task::Poll;

fn main() {
    let mut b = FnGraphBuilder::new();
    let [a, bb, c] = b.add_fns([
        Acc { id: 0, reads: vec![], writes: vec![] },
        Acc { id: 1, reads: vec![], writes: vec![] },
        Acc { id: 2, reads: vec![], writes: vec![] },
    ]);
    let _ = a;
    b.add_logic_edge(bb, c).unwrap();
    let g = b.build();
    let (w, cnt) = counting_waker();
    let mut cx = ctx(&w);
    let mut s = Box::pin(g.stream());
    let mut next_root = |k: &str| {
        let before = wakes(&cnt);
        match s.poll_next_unpin(&mut cx) {
            Poll::Ready(Some(r)) => r,
            Poll::Ready(None) => { println!("VIOLATION: the stream ended before yielding the {k} function without predecessors"); std::process::exit(1) }
            Poll::Pending => { println!("VIOLATION: poll returned Pending (wake-ups signalled during the poll: {}) although the {k} function without predecessors (A and B have none) was never yielded", wakes(&cnt) - before); std::process::exit(1) }
        }
    };
    let r1 = next_root("first");
    let r2 = next_root("second");
    if !matches!(s.poll_next_unpin(&mut cx), Poll::Pending) { println!("VIOLATION: a third function was yielded while B, the only predecessor of C, is still held"); std::process::exit(1); }
    let w0 = wakes(&cnt);
    // drop in the order (A, B): the notification that releases C is the second one
    let (first, second) = if r1.id == 0 { (r1, r2) } else { (r2, r1) };
    drop(first);
    drop(second);
    let w1 = wakes(&cnt);
    let p = s.poll_next_unpin(&mut cx);
    let w2 = wakes(&cnt);
    match p {
        Poll::Ready(Some(r)) => { println!("OK: C yielded (id {}) after {} wake(s)", r.id, w1 - w0); }
        Poll::Ready(None) => { println!("VIOLATION: stream ended early"); std::process::exit(1); }
        Poll::Pending => {
            if w2 > w1 { println!("OK: pending but a wake-up was signalled"); }
            else { println!("VIOLATION: poll returned Pending, C's only predecessor was dropped, wake-ups since the drops were consumed: {}", w2 - w1); std::process::exit(1); }
        }
    }
}
