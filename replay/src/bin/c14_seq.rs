//! C14 replay: the sequential iteration API checked on pseudo-random small DAGs with access declarations:
//! iter / toposort / map / fold / for_each / try_fold / try_for_each visit every function exactly once with every
//! function after all its predecessors in the built graph; iter_rev the mirror image; iter_insertion* follow
//! insertion order; try_* stop at the first error.
use fn_graph::daggy::Walker;
use fn_graph::{FnGraph, FnGraphBuilder, FnId};
use fn_graph_replay::*;

struct Lcg(u64);
impl Lcg {
    fn next(&mut self) -> u64 { self.0 = self.0.wrapping_mul(6364136223846793005).wrapping_add(1442695040888963407); self.0 >> 33 }
    fn below(&mut self, n: u64) -> u64 { self.next() % n }
}

fn fail(what: &str, desc: &str) -> ! {
    println!("VIOLATION (C14: {what}): {desc}");
    std::process::exit(1);
}

fn check_order(api: &str, seq: &[usize], n: usize, edges: &[(usize, usize)], rev: bool, desc: &str) {
    let mut pos = vec![usize::MAX; n];
    for (k, &i) in seq.iter().enumerate() {
        if i >= n { fail(&format!("{api} yields unknown function {i}"), desc); }
        if pos[i] != usize::MAX { fail(&format!("{api} visits function {i} twice: {seq:?}"), desc); }
        pos[i] = k;
    }
    if let Some(i) = (0..n).find(|&i| pos[i] == usize::MAX) { fail(&format!("{api} never visits function {i}: {seq:?}"), desc); }
    for &(a, b) in edges {
        let ok = if rev { pos[b] < pos[a] } else { pos[a] < pos[b] };
        if !ok { fail(&format!("{api} order {seq:?} does not respect edge {a}->{b}"), desc); }
    }
}

fn check(g: &mut FnGraph<Acc>, n: usize, desc: &str) {
    let edges: Vec<(usize, usize)> = g.graph.raw_edges().iter().map(|e| (e.source().index(), e.target().index())).collect();
    let seq: Vec<usize> = g.iter().map(|a| a.id).collect();
    check_order("iter", &seq, n, &edges, false, desc);
    let seq: Vec<usize> = g.iter_rev().map(|a| a.id).collect();
    check_order("iter_rev", &seq, n, &edges, true, desc);
    let seq: Vec<usize> = g.toposort().iter(&g.graph).map(|i: FnId| i.index()).collect();
    check_order("toposort", &seq, n, &edges, false, desc);
    let seq: Vec<usize> = g.map(|a| a.id).collect();
    check_order("map", &seq, n, &edges, false, desc);
    let seq: Vec<usize> = g.fold(vec![], |mut v, a| { v.push(a.id); v });
    check_order("fold", &seq, n, &edges, false, desc);
    let mut seq = vec![];
    g.for_each(|a| seq.push(a.id));
    check_order("for_each", &seq, n, &edges, false, desc);
    let seq: Vec<usize> = g.try_fold(vec![], |mut v, a| { v.push(a.id); Ok::<_, ()>(v) }).unwrap();
    check_order("try_fold", &seq, n, &edges, false, desc);
    let mut seq = vec![];
    g.try_for_each(|a| { seq.push(a.id); Ok::<_, ()>(()) }).unwrap();
    check_order("try_for_each", &seq, n, &edges, false, desc);
    let full = seq.clone();
    // failing call at every position: the error is returned and nothing is invoked afterwards
    for k in 0..n {
        let mut calls = vec![];
        let r = g.try_fold((), |(), a| { calls.push(a.id); if calls.len() == k + 1 { Err(a.id) } else { Ok(()) } });
        if r != Err(full[k]) || calls != full[..=k] { fail(&format!("try_fold failing at call {k}: result {r:?}, calls {calls:?}, order {full:?}"), desc); }
        let mut calls = vec![];
        let r = g.try_for_each(|a| { calls.push(a.id); if calls.len() == k + 1 { Err(a.id) } else { Ok(()) } });
        if r != Err(full[k]) || calls != full[..=k] { fail(&format!("try_for_each failing at call {k}: result {r:?}, calls {calls:?}, order {full:?}"), desc); }
    }
    let ins: Vec<usize> = g.iter_insertion().map(|a| a.id).collect();
    if ins != (0..n).collect::<Vec<_>>() { fail(&format!("iter_insertion order {ins:?}"), desc); }
    let ins: Vec<usize> = g.iter_insertion_mut().map(|a| a.id).collect();
    if ins != (0..n).collect::<Vec<_>>() { fail(&format!("iter_insertion_mut order {ins:?}"), desc); }
    let ins: Vec<(usize, usize)> = g.iter_insertion_with_indices().map(|(i, a)| (i.index(), a.id)).collect();
    if ins != (0..n).map(|i| (i, i)).collect::<Vec<_>>() { fail(&format!("iter_insertion_with_indices {ins:?}"), desc); }
}

fn main() {
    let seed = std::env::var("VERIF_SEED").ok().and_then(|s| s.parse().ok()).unwrap_or(1u64);
    let mut rng = Lcg(seed.wrapping_mul(7919) + 11);
    let mut g0: FnGraph<Acc> = FnGraphBuilder::new().build();
    check(&mut g0, 0, "empty graph");
    for round in 0..4000 {
        let n = 1 + rng.below(7) as usize;
        let mut label: Vec<usize> = (0..n).collect();
        for i in (1..n).rev() { let j = rng.below(i as u64 + 1) as usize; label.swap(i, j); }
        let access_pct = [0u64, 20, 40][rng.below(3) as usize];
        let accs: Vec<Acc> = (0..n).map(|i| {
            let mut reads = vec![]; let mut writes = vec![];
            for t in 0..3u8 { let r = rng.below(100); if r < access_pct / 2 { reads.push(t) } else if r < access_pct { writes.push(t) } }
            Acc { id: i, reads, writes }
        }).collect();
        let edge_pct = [0u64, 15, 35][rng.below(3) as usize];
        let mut es = vec![];
        for i in 0..n { for j in (i + 1)..n { if rng.below(100) < edge_pct { es.push((label[i], label[j], rng.below(2) == 0)); } } }
        let desc = format!("round {round}: n={n} accesses={:?} user edges={es:?}", accs.iter().map(|a| (a.reads.clone(), a.writes.clone())).collect::<Vec<_>>());
        let mut b = FnGraphBuilder::new();
        let ids: Vec<FnId> = accs.iter().cloned().map(|a| b.add_fn(a)).collect();
        for &(x, y, logic) in &es {
            if logic { b.add_logic_edge(ids[x], ids[y]).unwrap(); } else { b.add_contains_edge(ids[x], ids[y]).unwrap(); }
        }
        let res = std::panic::catch_unwind(std::panic::AssertUnwindSafe(|| b.build()));
        let mut g = match res { Ok(g) => g, Err(_) => fail("build panicked", &desc) };
        let r = std::panic::catch_unwind(std::panic::AssertUnwindSafe(|| check(&mut g, n, &desc)));
        if r.is_err() { fail("an iteration method panicked", &desc); }
    }
    // medium graphs (21..=140 functions): insertion order unrelated to the logic order, few user edges, many
    // functions of equal rank with conflicting access - orders derived from ranks / sorting rather than from
    // the built graph only go wrong beyond the sizes at which library sorts are stable
    for round in 0..60 {
        let n = 21 + rng.below(120) as usize;
        let mut label: Vec<usize> = (0..n).collect();
        for i in (1..n).rev() { let j = rng.below(i as u64 + 1) as usize; label.swap(i, j); }
        let accs: Vec<Acc> = (0..n).map(|i| {
            let mut reads = vec![]; let mut writes = vec![];
            for t in 0..3u8 { let r = rng.below(100); if r < 15 { reads.push(t) } else if r < 45 { writes.push(t) } }
            Acc { id: i, reads, writes }
        }).collect();
        let mut es = vec![];
        for i in 0..n { if rng.below(100) < 60 { let j = i + 1 + rng.below(6) as usize; if j < n { es.push((label[i], label[j], rng.below(2) == 0)); } } }
        let desc = format!("medium round {round}: n={n} accesses={:?} user edges={es:?}", accs.iter().map(|a| (a.reads.clone(), a.writes.clone())).collect::<Vec<_>>());
        let mut b = FnGraphBuilder::new();
        let ids: Vec<FnId> = accs.iter().cloned().map(|a| b.add_fn(a)).collect();
        for &(x, y, logic) in &es {
            if logic { b.add_logic_edge(ids[x], ids[y]).unwrap(); } else { b.add_contains_edge(ids[x], ids[y]).unwrap(); }
        }
        let res = std::panic::catch_unwind(std::panic::AssertUnwindSafe(|| b.build()));
        let mut g = match res { Ok(g) => g, Err(_) => fail("build panicked", &desc) };
        let r = std::panic::catch_unwind(std::panic::AssertUnwindSafe(|| check(&mut g, n, &desc)));
        if r.is_err() { fail("an iteration method panicked", &desc); }
    }
    // one large graph: 300 functions, sparse random edges, a few access declarations
    {
        let n = 300;
        let accs: Vec<Acc> = (0..n).map(|i| Acc { id: i, reads: if i % 7 == 0 { vec![(i % 5) as u8] } else { vec![] }, writes: if i % 11 == 0 { vec![(i % 5) as u8] } else { vec![] } }).collect();
        let mut b = FnGraphBuilder::new();
        let ids: Vec<FnId> = accs.iter().cloned().map(|a| b.add_fn(a)).collect();
        for i in 0..n { for _ in 0..2 { let j = i + 1 + rng.below(9) as usize; if j < n { b.add_logic_edge(ids[i], ids[j]).unwrap(); } } }
        let mut g = b.build();
        check(&mut g, n, "large graph: 300 functions, sparse random edges");
    }
    println!("OK c14_seq: 4062 graphs (60 of 21..140 functions), all sequential iteration methods, try_* failing at every position");
}
