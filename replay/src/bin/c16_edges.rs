//! C16 replay: pseudo-random sequences of add_logic_edge / add_contains_edge / their batch forms against a model:
//! WouldCycle exactly when the edge would close a cycle with the accepted edges (self-edges included), accepted edges
//! stay intact, every other edge is accepted, at most one edge per ordered pair, the most recent kind wins.
use fn_graph::{Edge, FnGraphBuilder, FnId};
use fn_graph_replay::*;
use std::collections::BTreeMap;

struct Lcg(u64);
impl Lcg {
    fn next(&mut self) -> u64 { self.0 = self.0.wrapping_mul(6364136223846793005).wrapping_add(1442695040888963407); self.0 >> 33 }
    fn below(&mut self, n: u64) -> u64 { self.next() % n }
}

fn reach(m: &BTreeMap<(usize, usize), bool>, a: usize, b: usize, n: usize) -> bool {
    let mut seen = vec![false; n];
    let mut st = vec![a];
    while let Some(x) = st.pop() {
        if x == b { return true; }
        if seen[x] { continue; }
        seen[x] = true;
        for (&(s, t), _) in m.iter() { if s == x { st.push(t); } }
    }
    false
}

fn fail(what: String, desc: &str) -> ! { println!("VIOLATION (C16: {what}): {desc}"); std::process::exit(1); }

fn main() {
    let seed = std::env::var("VERIF_SEED").ok().and_then(|s| s.parse().ok()).unwrap_or(1u64);
    let mut rng = Lcg(seed.wrapping_mul(40503) + 9);
    for round in 0..4000 {
        let n = 1 + rng.below(6) as usize;
        let mut b = FnGraphBuilder::new();
        let ids: Vec<FnId> = (0..n).map(|i| b.add_fn(Acc { id: i, reads: vec![], writes: vec![] })).collect();
        let mut model: BTreeMap<(usize, usize), bool> = BTreeMap::new(); // pair -> is_logic
        let mut log = vec![];
        let ops = rng.below(14) as usize;
        for _ in 0..ops {
            let logic = rng.below(2) == 0;
            let batch = rng.below(3) == 0;
            let pairs: Vec<(usize, usize)> = (0..if batch { 2 } else { 1 }).map(|_| (rng.below(n as u64) as usize, rng.below(n as u64) as usize)).collect();
            log.push((logic, pairs.clone()));
            let desc = format!("round {round}: n={n} calls (is_logic, pairs)={log:?}");
            // expected: pairs are applied in order; the first one that would close a cycle rejects the call, earlier ones stay
            let mut want_err = false;
            let before = model.clone();
            for &(x, y) in &pairs {
                if x == y || reach(&model, y, x, n) { want_err = true; break; }
                model.insert((x, y), logic);
            }
            let got_err = if batch {
                let arr = [(ids[pairs[0].0], ids[pairs[0].1]), (ids[pairs[1].0], ids[pairs[1].1])];
                if logic { b.add_logic_edges(arr).is_err() } else { b.add_contains_edges(arr).is_err() }
            } else {
                let (x, y) = pairs[0];
                if logic { b.add_logic_edge(ids[x], ids[y]).is_err() } else { b.add_contains_edge(ids[x], ids[y]).is_err() }
            };
            if got_err != want_err { fail(format!("last call returned {} but the model says {} (accepted before: {before:?})", if got_err { "WouldCycle" } else { "Ok" }, if want_err { "WouldCycle" } else { "Ok" }), &desc); }
        }
        let desc = format!("round {round}: n={n} calls (is_logic, pairs)={log:?}");
        let g = match std::panic::catch_unwind(std::panic::AssertUnwindSafe(|| b.build())) { Ok(g) => g, Err(_) => fail("build panicked".into(), &desc) };
        let mut got: BTreeMap<(usize, usize), bool> = BTreeMap::new();
        for e in g.graph.raw_edges() {
            let k = (e.source().index(), e.target().index());
            let logic = match e.weight { Edge::Logic => true, Edge::Contains => false, Edge::Data => fail(format!("unexpected Data edge {k:?}"), &desc) };
            if got.insert(k, logic).is_some() { fail(format!("two edges for the ordered pair {k:?}"), &desc); }
        }
        if got != model { fail(format!("edges of the built graph {got:?} differ from the accepted edges with their latest kinds {model:?} (true = Logic)"), &desc); }
    }
    // large batches: add_logic_edges / add_contains_edges with 40 pairs in one call, pairs repeated inside the batch, pairs already
    // present, and a cycle-closing pair at a random position (the pairs before it stay, the call is refused)
    for round in 0..300 {
        let n = 8 + rng.below(40) as usize;
        let mut b = FnGraphBuilder::new();
        let ids: Vec<FnId> = (0..n).map(|i| b.add_fn(Acc { id: i, reads: vec![], writes: vec![] })).collect();
        let mut model: BTreeMap<(usize, usize), bool> = BTreeMap::new();
        let mut desc = format!("large-batch round {round}: n={n}");
        for call in 0..3 {
            let logic = rng.below(2) == 0;
            let with_cycle = rng.below(3) == 0;
            let mut pairs: Vec<(usize, usize)> = vec![];
            for k in 0..40 {
                if k > 0 && rng.below(5) == 0 { let p = pairs[rng.below(pairs.len() as u64) as usize]; pairs.push(p); continue; } // repeat inside the batch
                let x = rng.below(n as u64 - 1) as usize; let y = x + 1 + rng.below((n - x - 1) as u64) as usize;
                pairs.push((x, y));
            }
            if with_cycle { let k = rng.below(40) as usize; let (x, y) = pairs[rng.below(40) as usize]; pairs[k] = (y, x); }
            desc += &format!("; call {call}: {} 40 pairs {pairs:?}", if logic { "add_logic_edges" } else { "add_contains_edges" });
            let mut want_err = false;
            for &(x, y) in &pairs {
                if x == y || reach(&model, y, x, n) { want_err = true; break; }
                model.insert((x, y), logic);
            }
            let arr: [(FnId, FnId); 40] = std::array::from_fn(|k| (ids[pairs[k].0], ids[pairs[k].1]));
            let got_err = if logic { b.add_logic_edges(arr).is_err() } else { b.add_contains_edges(arr).is_err() };
            if got_err != want_err { fail(format!("call {call} returned {} but the model says {}", if got_err { "WouldCycle" } else { "Ok" }, if want_err { "WouldCycle" } else { "Ok" }), &desc); }
        }
        let g = match std::panic::catch_unwind(std::panic::AssertUnwindSafe(|| b.build())) { Ok(g) => g, Err(_) => fail("build panicked".into(), &desc) };
        let mut got: BTreeMap<(usize, usize), bool> = BTreeMap::new();
        for e in g.graph.raw_edges() {
            let k = (e.source().index(), e.target().index());
            let logic = match e.weight { Edge::Logic => true, Edge::Contains => false, Edge::Data => fail(format!("unexpected Data edge {k:?}"), &desc) };
            if got.insert(k, logic).is_some() { fail(format!("two edges for the ordered pair {k:?}"), &desc); }
        }
        if got != model { fail("edges of the built graph differ from the accepted pairs with their latest kinds".to_string(), &desc); }
    }
    // growing builders: functions and edges interleaved up to 300 functions; each new function is linked to / from earlier
    // ones right away, and pairs given before are given again later with either kind (state that is resized or indexed
    // by the number of functions goes through every size on the way)
    for round in 0..12 {
        let total = [70usize, 140, 300][round % 3];
        let mut b = FnGraphBuilder::new();
        let mut ids: Vec<FnId> = vec![];
        let mut model: BTreeMap<(usize, usize), bool> = BTreeMap::new();
        let mut given: Vec<(usize, usize)> = vec![];
        let mut succ: Vec<Vec<usize>> = vec![];
        let desc = format!("growing builder #{round}: functions and edges interleaved up to {total} functions (VERIF_SEED={seed})");
        let mut call = |b: &mut FnGraphBuilder<Acc>, ids: &Vec<FnId>, model: &mut BTreeMap<(usize, usize), bool>, succ: &mut Vec<Vec<usize>>, x: usize, y: usize, logic: bool| {
            // reachability over the adjacency lists (the model map is too slow to scan at this size)
            let cyc = x == y || { let mut seen = vec![false; ids.len()]; let mut st = vec![y]; let mut hit = false; while let Some(v) = st.pop() { if v == x { hit = true; break; } if seen[v] { continue; } seen[v] = true; st.extend(succ[v].iter().copied()); } hit };
            let got_err = if logic { b.add_logic_edge(ids[x], ids[y]).is_err() } else { b.add_contains_edge(ids[x], ids[y]).is_err() };
            if got_err != cyc { fail(format!("call ({x} -> {y}, logic={logic}) with {} functions returned {} but the model says {}", ids.len(), if got_err { "WouldCycle" } else { "Ok" }, if cyc { "WouldCycle" } else { "Ok" }), &desc); }
            if !cyc { if model.insert((x, y), logic).is_none() { succ[x].push(y); } }
        };
        while ids.len() < total {
            let i = ids.len();
            ids.push(b.add_fn(Acc { id: i, reads: vec![], writes: vec![] }));
            succ.push(vec![]);
            if i == 0 { continue; }
            // link the newest function at once: one or two edges into it, sometimes one out of it
            for _ in 0..1 + rng.below(2) { let a = rng.below(i as u64) as usize; given.push((a, i)); call(&mut b, &ids, &mut model, &mut succ, a, i, rng.below(2) == 0); }
            if rng.below(3) == 0 { let a = rng.below(i as u64) as usize; given.push((i, a)); call(&mut b, &ids, &mut model, &mut succ, i, a, rng.below(2) == 0); }
            // give some earlier pairs again, with a random kind
            for _ in 0..rng.below(3) { let (x, y) = given[rng.below(given.len() as u64) as usize]; call(&mut b, &ids, &mut model, &mut succ, x, y, rng.below(2) == 0); }
        }
        // and every pair once more at full size
        for k in 0..given.len() { let (x, y) = given[k]; if rng.below(2) == 0 { call(&mut b, &ids, &mut model, &mut succ, x, y, rng.below(2) == 0); } }
        let g = match std::panic::catch_unwind(std::panic::AssertUnwindSafe(|| b.build())) { Ok(g) => g, Err(_) => fail("build panicked".into(), &desc) };
        let mut got: BTreeMap<(usize, usize), bool> = BTreeMap::new();
        for e in g.graph.raw_edges() {
            let k = (e.source().index(), e.target().index());
            let logic = match e.weight { Edge::Logic => true, Edge::Contains => false, Edge::Data => fail(format!("unexpected Data edge {k:?}"), &desc) };
            if got.insert(k, logic).is_some() { fail(format!("two edges for the ordered pair {k:?}"), &desc); }
        }
        if got != model {
            let diff: Vec<_> = model.iter().filter(|(k, v)| got.get(*k) != Some(*v)).take(3).collect();
            fail(format!("edges of the built graph differ from the accepted edges with their latest kinds, e.g. {diff:?} (true = Logic)"), &desc);
        }
    }
    println!("OK c16_edges: 4000 call sequences on up to 6 functions, 300 builders fed batches of 40 pairs with repeats, 12 growing builders of 70 / 140 / 300 functions");
}
