//! C04 replay: every streaming call on the EMPTY graph must complete (polled with a counting waker).
use fn_graph::{FnGraph, FnGraphBuilder, StreamOpts};
use fn_graph_replay::*;
use std::future::Future;
use std::ops::ControlFlow;
use std::task::Poll;

fn drive<Fut: Future>(name: &str, fut: Fut) -> bool {
    let (w, cnt) = counting_waker();
    let mut cx = ctx(&w);
    let mut fut = Box::pin(fut);
    for round in 0..8 {
        if let Poll::Ready(_) = fut.as_mut().poll(&mut cx) {
            println!("OK {name}: Ready after {} poll(s)", round + 1);
            return true;
        }
    }
    println!("VIOLATION {name}: still Pending after 8 polls, wake-ups signalled: {}", wakes(&cnt));
    false
}

fn main() {
    let mut ok = true;
    let mk = || -> FnGraph<Acc> { FnGraphBuilder::new().build() };
    {
        let g = mk();
        ok &= drive("for_each_concurrent", g.for_each_concurrent(None, |_f| async {}));
        ok &= drive("try_for_each_concurrent", g.try_for_each_concurrent(None, |_f| async { Result::<(), ()>::Ok(()) }));
        ok &= drive("try_for_each_concurrent_control", g.try_for_each_concurrent_control(None, |_f| async { ControlFlow::<(), ()>::Continue(()) }));
        ok &= drive("fold_async", g.fold_async((), |(), _f| Box::pin(async {})));
        ok &= drive("try_fold_async", g.try_fold_async((), |(), _f| Box::pin(async { Result::<(), ()>::Ok(()) })));
    }
    {
        let mut g = mk();
        ok &= drive("for_each_concurrent_mut", g.for_each_concurrent_mut(None, |_f| async {}));
    }
    {
        let mut g = mk();
        ok &= drive("try_for_each_concurrent_mut", g.try_for_each_concurrent_mut(None, |_f| async { Result::<(), ()>::Ok(()) }));
    }
    {
        let mut g = mk();
        ok &= drive("try_for_each_concurrent_mut_with", g.try_for_each_concurrent_mut_with(Some(2), StreamOpts::default(), |_f| async { Result::<(), ()>::Ok(()) }));
    }
    {
        let mut g = mk();
        ok &= drive("try_for_each_concurrent_control_mut", g.try_for_each_concurrent_control_mut(None, |_f| async { ControlFlow::<(), ()>::Continue(()) }));
    }
    {
        let mut g = mk();
        ok &= drive("fold_async_mut", g.fold_async_mut((), |(), _f| Box::pin(async {})));
    }
    {
        let mut g = mk();
        ok &= drive("try_fold_async_mut", g.try_fold_async_mut((), |(), _f| Box::pin(async { Result::<(), ()>::Ok(()) })));
    }
    if !ok { std::process::exit(1); }
}
