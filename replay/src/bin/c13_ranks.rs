//! C13 replay: ranks() vs an independent longest-chain computation on small DAGs
//! (all edge subsets for n <= 4 in two insertion orders, then a deterministic pseudo-random sweep n <= 9).
use fn_graph::{FnGraphBuilder, FnId};
use fn_graph_replay::*;

struct Lcg(u64);
impl Lcg {
    fn next(&mut self) -> u64 { self.0 = self.0.wrapping_mul(6364136223846793005).wrapping_add(1442695040888963407); self.0 >> 33 }
    fn below(&mut self, n: u64) -> u64 { self.next() % n }
}

fn longest(n: usize, edges: &[(usize, usize)]) -> Vec<usize> {
    // edges go from lower to higher topological label `topo`; simple fixpoint
    let mut r = vec![0usize; n];
    for _ in 0..n {
        for &(a, b) in edges {
            if r[b] < r[a] + 1 { r[b] = r[a] + 1; }
        }
    }
    r
}

thread_local! { static ACC_VARIANT: std::cell::Cell<u8> = const { std::cell::Cell::new(0) }; static REFUSED: std::cell::Cell<bool> = const { std::cell::Cell::new(false) }; }

fn check(n: usize, edges: &[(usize, usize)], label: &str) -> bool {
    for v in 0..3u8 {
        ACC_VARIANT.with(|c| c.set(v));
        // ... and with edge requests that the builder has to refuse (the reverse of every accepted edge, a self-edge on every
        // function) mixed in: a refused request must leave no trace in the ranks
        for refused in [false, true] {
            REFUSED.with(|c| c.set(refused));
            if !check1(n, edges, &format!("{label}, access declaration variant {v}{}", if refused { ", with refused edge requests (reverse of each accepted edge, self-edges) in between" } else { "" })) { return false; }
        }
    }
    REFUSED.with(|c| c.set(false));
    true
}

fn check1(n: usize, edges: &[(usize, usize)], label: &str) -> bool {
    let mut b = FnGraphBuilder::new();
    // access declarations must not matter: variant k of the same graph gives every function some reads / writes
    let variant = ACC_VARIANT.with(|v| v.get());
    let ids: Vec<FnId> = (0..n).map(|i| b.add_fn(match variant {
        0 => Acc { id: i, reads: vec![], writes: vec![] },
        1 => Acc { id: i, reads: vec![], writes: vec![0] },
        _ => Acc { id: i, reads: if i % 2 == 0 { vec![1] } else { vec![] }, writes: if i % 2 == 1 { vec![1] } else { vec![(i % 3) as u8] } },
    })).collect();
    for (k, &(x, y)) in edges.iter().enumerate() {
        if k % 2 == 0 { b.add_logic_edge(ids[x], ids[y]).unwrap(); } else { b.add_contains_edge(ids[x], ids[y]).unwrap(); }
        if REFUSED.with(|c| c.get()) {
            let r = if k % 3 == 0 { b.add_contains_edge(ids[y], ids[x]) } else { b.add_logic_edge(ids[y], ids[x]) };
            if r.is_ok() { println!("VIOLATION ({label}): n={n}: the reverse {y}->{x} of the accepted edge {x}->{y} was accepted"); return false; }
        }
    }
    if REFUSED.with(|c| c.get()) {
        for i in 0..n { let r = if i % 2 == 0 { b.add_logic_edge(ids[i], ids[i]) } else { b.add_contains_edge(ids[i], ids[i]) }; if r.is_ok() { println!("VIOLATION ({label}): n={n}: the self-edge on {i} was accepted"); return false; } }
    }
    let g = b.build();
    let got: Vec<usize> = g.ranks().iter().map(|r| r.0).collect();
    let want = longest(n, edges);
    if got != want {
        println!("VIOLATION ({label}): n={n} edges(in insertion order)={edges:?}: ranks()={got:?}, longest chains={want:?}");
        return false;
    }
    true
}

/// large graphs: one access-declaration variant, reference ranks by a pass over a topological order
fn check1_large(n: usize, edges: &[(usize, usize)], label: &str) -> bool {
    ACC_VARIANT.with(|c| c.set(2));
    let mut b = FnGraphBuilder::new();
    let ids: Vec<FnId> = (0..n).map(|i| b.add_fn(Acc { id: i, reads: if i % 2 == 0 { vec![1] } else { vec![] }, writes: if i % 2 == 1 { vec![1] } else { vec![(i % 3) as u8] } })).collect();
    for (k, &(x, y)) in edges.iter().enumerate() {
        if k % 2 == 0 { b.add_logic_edge(ids[x], ids[y]).unwrap(); } else { b.add_contains_edge(ids[x], ids[y]).unwrap(); }
    }
    let g = b.build();
    let got: Vec<usize> = g.ranks().iter().map(|r| r.0).collect();
    // longest chains by relaxation until a fixpoint (at most n rounds)
    let mut want = vec![0usize; n];
    loop { let mut ch = false; for &(a, c) in edges { if want[c] < want[a] + 1 { want[c] = want[a] + 1; ch = true; } } if !ch { break; } }
    if got != want {
        let k = (0..n).find(|&i| got[i] != want[i]).unwrap();
        println!("VIOLATION ({label}): n={n}: ranks()[{k}] = {} but the longest chain of user edges ending at {k} has {} edges", got[k], want[k]);
        return false;
    }
    true
}

fn main() {
    // exhaustive: n <= 4, every subset of forward pairs under every node relabelling, two edge orders
    for n in 1..=4usize {
        let pairs: Vec<(usize, usize)> = (0..n).flat_map(|i| ((i + 1)..n).map(move |j| (i, j))).collect();
        let mut perm: Vec<usize> = (0..n).collect();
        loop {
            for mask in 0u32..(1 << pairs.len()) {
                let mut es: Vec<(usize, usize)> = pairs.iter().enumerate().filter(|(k, _)| mask >> k & 1 == 1).map(|(_, &(a, b))| (perm[a], perm[b])).collect();
                if !check(n, &es, "exhaustive") { std::process::exit(1); }
                es.reverse();
                if !check(n, &es, "exhaustive-rev") { std::process::exit(1); }
            }
            // next permutation
            let mut i = n;
            while i > 1 && perm[i - 2] >= perm[i - 1] { i -= 1; }
            if i <= 1 { break; }
            let mut j = n - 1;
            while perm[j] <= perm[i - 2] { j -= 1; }
            perm.swap(i - 2, j);
            perm[i - 1..].reverse();
        }
    }
    let seed = std::env::var("VERIF_SEED").ok().and_then(|s| s.parse().ok()).unwrap_or(1u64);
    let mut rng = Lcg(seed.wrapping_mul(7919) + 17);
    for _ in 0..20000 {
        let n = 2 + rng.below(8) as usize;
        let mut label: Vec<usize> = (0..n).collect();
        for i in (1..n).rev() { let j = rng.below(i as u64 + 1) as usize; label.swap(i, j); }
        let mut es = vec![];
        for i in 0..n { for j in (i + 1)..n { if rng.below(100) < 45 { es.push((label[i], label[j])); } } }
        for i in (1..es.len()).rev() { let j = rng.below(i as u64 + 1) as usize; es.swap(i, j); }
        if !check(n, &es, "random") { std::process::exit(1); }
    }
    // large graphs: a chain of 700 functions (ranks up to 699), declared back to front; sparse random DAGs of 300 functions
    {
        let n = 700;
        let es: Vec<(usize, usize)> = (0..n - 1).rev().map(|i| (i, i + 1)).collect();
        if !check1_large(n, &es, "chain of 700, edges declared back to front") { std::process::exit(1); }
        // sparse graphs on which a FIFO relaxation revisits long chains: a root with an edge to every function declared
        // before the chain 1 -> 2 -> .. -> n-1; a chain with skip edges i -> i+2, chain edges declared first (both id orders)
        for n in [60usize, 120, 240] {
            let mut es: Vec<(usize, usize)> = (1..n).map(|i| (0, i)).collect();
            es.extend((1..n - 1).map(|i| (i, i + 1)));
            if !check1_large(n, &es, &format!("root shortcuts then chain, n={n}")) { std::process::exit(1); }
            let mut es: Vec<(usize, usize)> = (0..n - 1).map(|i| (i, i + 1)).collect();
            es.extend((0..n - 2).map(|i| (i, i + 2)));
            if !check1_large(n, &es, &format!("chain then skip edges, n={n}")) { std::process::exit(1); }
            let es2: Vec<(usize, usize)> = es.iter().map(|&(a, b)| (n - 1 - a, n - 1 - b)).map(|(a, b)| (a, b)).collect();
            // reversed ids: edge a->b becomes (n-1-a) -> (n-1-b), i.e. from higher to lower ids
            if !check1_large(n, &es2, &format!("chain then skip edges with reversed ids, n={n}")) { std::process::exit(1); }
        }
        for round in 0..6 {
            let n = 300;
            let mut label: Vec<usize> = (0..n).collect();
            for i in (1..n).rev() { let j = rng.below(i as u64 + 1) as usize; label.swap(i, j); }
            let mut es = vec![];
            for i in 0..n { for _ in 0..2 { let j = i + 1 + rng.below(12) as usize; if j < n { es.push((label[i], label[j])); } } }
            es.sort(); es.dedup();
            for i in (1..es.len()).rev() { let j = rng.below(i as u64 + 1) as usize; es.swap(i, j); }
            if !check1_large(n, &es, &format!("sparse random DAG #{round} of 300 functions")) { std::process::exit(1); }
        }
    }
    println!("OK: ranks() equals the longest chain on all explored graphs");
}
