//! C18 replay (needs feature `hooks`): queue pops of RankCalc::calc on complete DAGs vs the bound n*n+n.
use fn_graph::FnGraphBuilder;
use fn_graph_replay::*;

fn main() {
    #[cfg(feature = "hooks")]
    {
        for n in 2..=14usize {
            let mut b = FnGraphBuilder::new();
            let ids: Vec<_> = (0..n).map(|i| b.add_fn(Acc { id: i, reads: vec![], writes: vec![] })).collect();
            for i in 0..n {
                for j in (i + 1)..n {
                    b.add_logic_edge(ids[i], ids[j]).unwrap();
                }
            }
            fn_graph::verif_hooks::rank_calc_pops_reset();
            let g = b.build();
            let pops = fn_graph::verif_hooks::rank_calc_pops();
            let bound = n * n + n;
            if pops > bound {
                println!("VIOLATION: complete DAG with n={n}: RankCalc::calc popped its queue {pops} times > n*n+n = {bound}");
                std::process::exit(1);
            }
            let _ = g;
        }
        println!("OK: pops within n*n+n on complete DAGs n=2..14");
    }
    #[cfg(not(feature = "hooks"))]
    println!("built without hooks");
}
