//! C18 replay (needs feature `hooks`): queue pops of RankCalc::calc on complete DAGs vs the bound n*n+n, and the
//! wall time of build() on layered and dense graphs of a few dozen functions (the statement's "build promptly"):
//! each build runs on a worker thread with a budget of 20 s (more on a loaded machine: 3000 x the build time of a chain of 60); on the unchanged tree these builds take milliseconds, a
//! build whose work follows the number of paths (3^17, 4^13, 2^27 for the largest graphs) does not come back.
use fn_graph::FnGraphBuilder;
use fn_graph_replay::*;

fn main() {
    #[cfg(feature = "hooks")]
    {
        for n in 2..=14usize {
            let mut b = FnGraphBuilder::new();
            let ids: Vec<_> = (0..n).map(|i| b.add_fn(Acc { id: i, reads: vec![], writes: vec![] })).collect();
            for i in 0..n {
                for j in (i + 1)..n {
                    b.add_logic_edge(ids[i], ids[j]).unwrap();
                }
            }
            fn_graph::verif_hooks::rank_calc_pops_reset();
            let g = b.build();
            let pops = fn_graph::verif_hooks::rank_calc_pops();
            let bound = n * n + n;
            if pops > bound {
                println!("VIOLATION: complete DAG with n={n}: RankCalc::calc popped its queue {pops} times > n*n+n = {bound}");
                std::process::exit(1);
            }
            let _ = g;
        }
        // the budget of the timed builds follows the speed of this machine right now, measured on a graph where every algorithm
        // that is polynomial OR walks paths takes the same time: a chain of 60 functions (one path per function). The timed graphs
        // have at most ~8 times its edges and the same number of functions, so a polynomial build stays within a few hundred
        // times this duration, while a build that walks paths needs 2^27 .. 3^17 steps
        let t_ref = {
            let t0 = std::time::Instant::now();
            for _ in 0..5 {
                let mut b = FnGraphBuilder::new();
                let ids: Vec<_> = (0..60usize).map(|i| b.add_fn(Acc { id: i, reads: vec![], writes: vec![0] })).collect();
                for i in 0..59 { b.add_logic_edge(ids[i], ids[i + 1]).unwrap(); }
                let _ = b.build();
            }
            t0.elapsed().as_secs_f64() / 5.0
        };
        let budget = std::time::Duration::from_secs_f64((t_ref * 3000.0).clamp(20.0, 600.0));
        // layered graphs: `layers` layers of `width` functions, every function connected to every function of the next layer
        // ... each in two id orders: functions declared in dependency order, and leaves first (every edge from a higher to a lower id)
        for (width, layers, leaves_first) in [(2usize, 8usize, false), (3, 8, false), (3, 12, false), (4, 12, false), (2, 24, false), (3, 18, false), (4, 14, false), (2, 28, false),
                                              (3, 8, true), (4, 8, true), (4, 12, true), (3, 18, true), (4, 14, true), (2, 28, true)] {
            let n = width * layers;
            let (tx, rx) = std::sync::mpsc::channel();
            let t0 = std::time::Instant::now();
            std::thread::spawn(move || {
                let mut b = FnGraphBuilder::new();
                let ids: Vec<_> = (0..n).map(|i| b.add_fn(Acc { id: i, reads: vec![], writes: vec![] })).collect();
                let at = |i: usize| if leaves_first { n - 1 - i } else { i };
                for l in 0..layers - 1 { for a in 0..width { for c in 0..width { b.add_logic_edge(ids[at(l * width + a)], ids[at((l + 1) * width + c)]).unwrap(); } } }
                fn_graph::verif_hooks::rank_calc_pops_reset();
                let g = b.build();
                let _ = tx.send((fn_graph::verif_hooks::rank_calc_pops(), g.ranks().iter().map(|r| r.0).collect::<Vec<_>>()));
            });
            match rx.recv_timeout(budget) {
                Ok((pops, ranks)) => {
                    if pops > n * n + n { println!("VIOLATION: layered {width}x{layers} (leaves declared first: {leaves_first}): RankCalc::calc popped its queue {pops} times > n*n+n = {}", n * n + n); std::process::exit(1); }
                    if ranks != (0..n).map(|i| if leaves_first { (n - 1 - i) / width } else { i / width }).collect::<Vec<_>>() { println!("VIOLATION: layered {width}x{layers}: ranks {ranks:?}"); std::process::exit(1); }
                }
                Err(_) => {
                    println!("VIOLATION: build() of the layered graph {width}x{layers} ({n} functions, {} edges) did not finish within the budget of {budget:?} (elapsed {:?}; leaves declared first: {leaves_first}): its work is not polynomial in functions and edges", (layers - 1) * width * width, t0.elapsed());
                    std::process::exit(1);
                }
            }
        }
        // graphs WITH data access: the data-edge pass searches for paths between conflicting functions; dense regions next
        // to unreachable conflicting functions make a search without a visited set walk every path
        let timed = |desc: String, accs: Vec<Acc>, edges: Vec<(usize, usize)>| {
            let n = accs.len();
            let ne = edges.len();
            let (tx, rx) = std::sync::mpsc::channel();
            let t0 = std::time::Instant::now();
            std::thread::spawn(move || {
                let mut b = FnGraphBuilder::new();
                let ids: Vec<_> = accs.into_iter().map(|a| b.add_fn(a)).collect();
                for (a, c) in edges { b.add_logic_edge(ids[a], ids[c]).unwrap(); }
                fn_graph::verif_hooks::rank_calc_pops_reset();
                let g = b.build();
                let _ = tx.send((fn_graph::verif_hooks::rank_calc_pops(), g.graph.edge_count()));
            });
            match rx.recv_timeout(budget) {
                Ok((pops, _)) => if pops > n * n + n { println!("VIOLATION: {desc}: {pops} pops > n*n+n"); std::process::exit(1); },
                Err(_) => {
                    println!("VIOLATION: build() of {desc} ({n} functions, {ne} logic edges) did not finish within the budget of {budget:?} (elapsed {:?}): its work is not polynomial in functions and edges", t0.elapsed());
                    std::process::exit(1);
                }
            }
        };
        let plain = |i: usize| Acc { id: i, reads: vec![], writes: vec![] };
        let complete = |k: usize, off: usize| -> Vec<(usize, usize)> { let mut e = vec![]; for i in 0..k { for j in (i + 1)..k { e.push((off + i, off + j)); } } e };
        for k in [16usize, 24, 30] {
            // complete DAG t0..t(k-1), detached chain c0..c(k-1); t0 and the chain's end write the same type
            let mut accs: Vec<Acc> = (0..2 * k).map(plain).collect();
            accs[0].writes = vec![0]; accs[2 * k - 1].writes = vec![0];
            let mut edges = complete(k, 0); edges.extend((0..k - 1).map(|i| (k + i, k + i + 1)));
            timed(format!("complete DAG of {k} + detached chain of {k}, first and last function write one type"), accs, edges);
            // the same with the chain declared first (ids reversed between the regions)
            let mut accs: Vec<Acc> = (0..2 * k).map(plain).collect();
            accs[k].writes = vec![0]; accs[k - 1].writes = vec![0];
            let mut edges: Vec<(usize, usize)> = (0..k - 1).map(|i| (i, i + 1)).collect(); edges.extend(complete(k, k));
            timed(format!("chain of {k} declared first + complete DAG of {k}, chain end and DAG root write one type"), accs, edges);
            // every function of the dense region reads the type the chain's end writes
            let mut accs: Vec<Acc> = (0..2 * k).map(plain).collect();
            for a in accs.iter_mut().take(k) { a.reads = vec![0]; }
            accs[2 * k - 1].writes = vec![0];
            let mut edges = complete(k, 0); edges.extend((0..k - 1).map(|i| (k + i, k + i + 1)));
            timed(format!("complete DAG of {k} readers + detached chain of {k} ending in a writer"), accs, edges);
            // two detached complete DAGs, every function writes the same type
            let accs: Vec<Acc> = (0..2 * k).map(|i| Acc { id: i, reads: vec![], writes: vec![0] }).collect();
            let mut edges = complete(k, 0); edges.extend(complete(k, k));
            timed(format!("two detached complete DAGs of {k} writers of one type"), accs, edges);
        }
        for (width, layers) in [(3usize, 14usize), (2, 24)] {
            let n = width * layers;
            let accs: Vec<Acc> = (0..n).map(|i| Acc { id: i, reads: if i % 2 == 0 { vec![0] } else { vec![] }, writes: if i % 2 == 1 { vec![0] } else { vec![1] } }).collect();
            let mut edges = vec![];
            for l in 0..layers - 1 { for a in 0..width { for c in 0..width { edges.push((l * width + a, (l + 1) * width + c)); } } }
            timed(format!("layered {width}x{layers} with data access on every function"), accs, edges);
        }
        println!("OK: pops within n*n+n on complete DAGs n=2..14; layered graphs up to 56 functions and dense graphs with conflicting detached functions (60 functions) build within the budget");
    }
    #[cfg(not(feature = "hooks"))]
    println!("built without hooks");
}
