//! C18 replay (needs feature `hooks`): queue pops of RankCalc::calc on complete DAGs vs the bound n*n+n, and the
//! wall time of build() on layered and dense graphs of a few dozen functions (the statement's "build promptly"):
//! each build runs on a worker thread with a 20 s budget; on the unchanged tree these builds take milliseconds, a
//! build whose work follows the number of paths (3^17, 4^13, 2^27 for the largest graphs) does not come back.
use fn_graph::FnGraphBuilder;
use fn_graph_replay::*;

fn main() {
    #[cfg(feature = "hooks")]
    {
        for n in 2..=14usize {
            let mut b = FnGraphBuilder::new();
            let ids: Vec<_> = (0..n).map(|i| b.add_fn(Acc { id: i, reads: vec![], writes: vec![] })).collect();
            for i in 0..n {
                for j in (i + 1)..n {
                    b.add_logic_edge(ids[i], ids[j]).unwrap();
                }
            }
            fn_graph::verif_hooks::rank_calc_pops_reset();
            let g = b.build();
            let pops = fn_graph::verif_hooks::rank_calc_pops();
            let bound = n * n + n;
            if pops > bound {
                println!("VIOLATION: complete DAG with n={n}: RankCalc::calc popped its queue {pops} times > n*n+n = {bound}");
                std::process::exit(1);
            }
            let _ = g;
        }
        // layered graphs: `layers` layers of `width` functions, every function connected to every function of the next layer
        for (width, layers) in [(2usize, 8usize), (3, 8), (3, 12), (4, 12), (2, 24), (3, 18), (4, 14), (2, 28)] {
            let n = width * layers;
            let (tx, rx) = std::sync::mpsc::channel();
            let t0 = std::time::Instant::now();
            std::thread::spawn(move || {
                let mut b = FnGraphBuilder::new();
                let ids: Vec<_> = (0..n).map(|i| b.add_fn(Acc { id: i, reads: vec![], writes: vec![] })).collect();
                for l in 0..layers - 1 { for a in 0..width { for c in 0..width { b.add_logic_edge(ids[l * width + a], ids[(l + 1) * width + c]).unwrap(); } } }
                fn_graph::verif_hooks::rank_calc_pops_reset();
                let g = b.build();
                let _ = tx.send((fn_graph::verif_hooks::rank_calc_pops(), g.ranks().iter().map(|r| r.0).collect::<Vec<_>>()));
            });
            match rx.recv_timeout(std::time::Duration::from_secs(20)) {
                Ok((pops, ranks)) => {
                    if pops > n * n + n { println!("VIOLATION: layered {width}x{layers}: {pops} pops > n*n+n"); std::process::exit(1); }
                    if ranks != (0..n).map(|i| i / width).collect::<Vec<_>>() { println!("VIOLATION: layered {width}x{layers}: ranks {ranks:?}"); std::process::exit(1); }
                }
                Err(_) => {
                    println!("VIOLATION: build() of the layered graph {width}x{layers} ({n} functions, {} edges) did not finish within 20 s (elapsed {:?}): its work is not polynomial in functions and edges", (layers - 1) * width * width, t0.elapsed());
                    std::process::exit(1);
                }
            }
        }
        println!("OK: pops within n*n+n on complete DAGs n=2..14; layered graphs up to 56 functions build within the budget");
    }
    #[cfg(not(feature = "hooks"))]
    println!("built without hooks");
}
