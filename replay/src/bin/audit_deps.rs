//! Bounded audit of the ASSUMED dependency contracts of /verif/prelude against the real crates this tree builds with
//! (daggy / petgraph, tokio mpsc, futures combinators). Every audit replays pseudo-random inputs through the real
//! dependency and compares with the contract text of the stub it backs. A failure here does not say anything about
//! fn_graph: it says a stub of the trusted base is wrong (the checks then report UNDECIDED, never a violation).
//! Bounded, never counted as proved. usage: audit_deps  (prints one OK line per audit or AUDIT-FAIL and exits 1)
use fn_graph::daggy::petgraph::algo::has_path_connecting;
use fn_graph::daggy::petgraph::visit::{IntoNodeReferences, Reversed, Topo};
use fn_graph::daggy::{Dag, NodeIndex, Walker};
use fn_graph::{Edge, FnIdInner};
use fn_graph_replay::*;
use futures::stream::{self, StreamExt};
use std::cell::{Cell, RefCell};
use std::future::Future;
use std::pin::Pin;
use std::rc::Rc;
use std::task::{Context, Poll, Waker};
use tokio::sync::mpsc;

struct Lcg(u64);
impl Lcg {
    fn next(&mut self) -> u64 { self.0 = self.0.wrapping_mul(6364136223846793005).wrapping_add(1442695040888963407); self.0 >> 33 }
    fn below(&mut self, n: u64) -> u64 { self.next() % n }
}
fn fail(a: &str, what: String) -> ! { println!("AUDIT-FAIL {a}: {what}"); std::process::exit(1); }
type G = Dag<usize, Edge, FnIdInner>;
fn ni(i: usize) -> NodeIndex<FnIdInner> { NodeIndex::new(i) }
fn kinds(k: u64) -> Edge { match k % 3 { 0 => Edge::Logic, 1 => Edge::Contains, _ => Edge::Data } }
fn reach(es: &[(usize, usize, Edge)], a: usize, b: usize, n: usize) -> bool {
    let mut seen = vec![false; n]; let mut st = vec![a];
    while let Some(x) = st.pop() { if x == b { return true; } if seen[x] { continue; } seen[x] = true; for &(s, t, _) in es { if s == x { st.push(t); } } }
    false
}
fn edges_of(g: &G) -> Vec<(usize, usize, Edge)> { g.raw_edges().iter().map(|e| (e.source().index(), e.target().index(), e.weight)).collect() }

/// A1-A5: daggy / petgraph stubs of prelude/base.rs, build.rs, topo.rs
fn audit_daggy(rng: &mut Lcg) {
    for round in 0..3000 {
        let n = 1 + rng.below(7) as usize;
        let mut g: G = Dag::new();
        if g.node_count() != 0 || g.edge_count() != 0 { fail("A5 Dag::new", "not empty".into()); }
        { let d: G = Default::default(); if d.node_count() != 0 || d.edge_count() != 0 { fail("A5 Dag::default", "not empty".into()); } }
        for i in 0..n { let r = g.add_node(i * 10); if r.index() != i || g.node_count() != i + 1 { fail("A5 add_node", format!("index {} for node {i}", r.index())); } }
        let mut model: Vec<(usize, usize, Edge)> = vec![];
        for _ in 0..rng.below(16) {
            let (a, b, k, upd) = (rng.below(n as u64) as usize, rng.below(n as u64) as usize, kinds(rng.next()), rng.below(2) == 0);
            let before = edges_of(&g);
            let cyc = a == b || reach(&model, b, a, n);
            let existing = model.iter().position(|&(s, t, _)| s == a && t == b);
            let r = if upd { g.update_edge(ni(a), ni(b), k) } else { g.add_edge(ni(a), ni(b), k) };
            match (upd, existing) {
                (true, Some(_)) => {
                    // update_edge on an existing pair: Ok, the weight of ONE existing a->b edge is replaced in place and its
                    // index returned (with parallel edges, made here through add_edge, any of them: the stub says `exists`)
                    match r {
                        Ok(e) if e.index() < model.len() && model[e.index()].0 == a && model[e.index()].1 == b => { model[e.index()].2 = k; }
                        other => fail("A1 update_edge(existing)", format!("round {round}: returned {:?} for {a}->{b} over {model:?}", other.map(|e| e.index()).map_err(|_| "WouldCycle"))),
                    }
                }
                _ => {
                    if cyc {
                        if r.is_ok() { fail("A1 cycle check", format!("round {round}: edge {a}->{b} accepted although it closes a cycle over {model:?}")); }
                        if edges_of(&g) != before { fail("A1 untouched on Err", format!("round {round}")); }
                    } else {
                        match r { Ok(e) if e.index() == model.len() => {} other => fail("A1 appended index", format!("round {round}: {:?}", other.map(|e| e.index()).map_err(|_| "WouldCycle"))) }
                        model.push((a, b, k));
                    }
                }
            }
            if edges_of(&g) != model { fail("A1 raw_edges = model", format!("round {round}: {:?} vs {model:?}", edges_of(&g))); }
        }
        // A2: children / parents walkers: edges leaving / entering the node, most recently added first
        for a in 0..n {
            let want: Vec<(usize, usize)> = model.iter().enumerate().filter(|(_, e)| e.0 == a).map(|(i, e)| (i, e.1)).rev().collect();
            let got: Vec<(usize, usize)> = g.children(ni(a)).iter(&g).map(|(e, c)| (e.index(), c.index())).collect();
            if got != want { fail("A2 children().iter()", format!("round {round}: node {a}: {got:?} vs {want:?} over {model:?}")); }
            let want: Vec<(usize, usize)> = model.iter().enumerate().filter(|(_, e)| e.1 == a).map(|(i, e)| (i, e.0)).rev().collect();
            let got: Vec<(usize, usize)> = g.parents(ni(a)).iter(&g).map(|(e, c)| (e.index(), c.index())).collect();
            if got != want { fail("A2 parents().iter()", format!("round {round}: node {a}: {got:?} vs {want:?}")); }
            let first = g.parents(ni(a)).walk_next(&g).map(|(e, c)| (e.index(), c.index()));
            if first != want.first().copied() { fail("A2 parents().walk_next()", format!("round {round}: node {a}")); }
        }
        // A3: has_path_connecting = reachability, a node reaches itself
        for a in 0..n { for b in 0..n {
            if has_path_connecting(g.graph(), ni(a), ni(b), None) != reach(&model, a, b, n) { fail("A3 has_path_connecting", format!("round {round}: {a}->{b} over {model:?}")); }
        } }
        // A4: Topo over the graph and over Reversed: every node once, sources before targets
        for rev in [false, true] {
            let order: Vec<usize> = if rev { let r = Reversed(g.graph()); let mut t = Topo::new(r); let mut v = vec![]; while let Some(i) = t.next(r) { v.push(i.index()); } v }
                                    else { let mut t = Topo::new(g.graph()); let mut v = vec![]; while let Some(i) = t.next(g.graph()) { v.push(i.index()); } v };
            let mut pos = vec![usize::MAX; n];
            for (k, &i) in order.iter().enumerate() { if pos[i] != usize::MAX { fail("A4 Topo", format!("node {i} twice")); } pos[i] = k; }
            if order.len() != n { fail("A4 Topo", format!("round {round}: {} of {n} nodes (rev={rev})", order.len())); }
            for &(s, t, _) in &model { let ok = if rev { pos[t] < pos[s] } else { pos[s] < pos[t] }; if !ok { fail("A4 Topo", format!("round {round}: order {order:?} vs edge {s}->{t} (rev={rev})")); } }
        }
        // A5: node_references / node_weight / index
        let refs: Vec<(usize, usize)> = g.node_references().map(|(i, w)| (i.index(), *w)).collect();
        if refs != (0..n).map(|i| (i, i * 10)).collect::<Vec<_>>() { fail("A5 node_references", format!("{refs:?}")); }
        for i in 0..n { if g.node_weight(ni(i)) != Some(&(i * 10)) || g[ni(i)] != i * 10 { fail("A5 node_weight/index", format!("{i}")); } }
        if g.node_weight(ni(n)).is_some() { fail("A5 node_weight", "Some for a missing node".into()); }
    }
    println!("OK audit A1-A5 daggy/petgraph: update_edge, add_edge, raw_edges, children, parents, walk_next, has_path_connecting, Topo (+Reversed), node_references, node_weight: 3000 random graphs");
}

/// A6: tokio mpsc (prelude/channels.rs, stream.rs): capacity, FIFO, waker registration, close
fn audit_mpsc(rng: &mut Lcg) {
    for round in 0..2000 {
        let cap = 1 + rng.below(5) as usize;
        let (tx, mut rx) = mpsc::channel::<usize>(cap);
        let (w, cnt) = counting_waker();
        let mut cx = ctx(&w);
        let mut queue: std::collections::VecDeque<usize> = Default::default();
        let mut senders = vec![tx];
        let mut waker_registered = false;
        for step in 0..rng.below(30) {
            match rng.below(4) {
                0 | 1 if !senders.is_empty() => {
                    let before = wakes(&cnt);
                    let r = senders[0].try_send(step as usize);
                    if queue.len() < cap { if r.is_err() { fail("A6 try_send", format!("round {round}: refused with {} of {cap} queued", queue.len())); } queue.push_back(step as usize);
                        if waker_registered && wakes(&cnt) == before { fail("A6 wake on send", format!("round {round}: receiver parked, send did not wake it")); }
                        if waker_registered { waker_registered = false; }
                    } else if r.is_ok() { fail("A6 try_send", format!("round {round}: accepted although {cap} of {cap} queued")); }
                }
                2 => {
                    match rx.poll_recv(&mut cx) {
                        Poll::Ready(Some(v)) => { if queue.pop_front() != Some(v) { fail("A6 FIFO", format!("round {round}: got {v}")); } }
                        Poll::Ready(None) => { if !queue.is_empty() || !senders.is_empty() { fail("A6 Ready(None)", format!("round {round}: with {} queued, {} senders", queue.len(), senders.len())); } }
                        Poll::Pending => { if !queue.is_empty() { fail("A6 Pending", format!("round {round}: although {} queued", queue.len())); } if senders.is_empty() { fail("A6 Pending", "although every sender is gone".into()); } waker_registered = true; }
                    }
                }
                _ => {
                    if rng.below(2) == 0 && !senders.is_empty() { let c = senders[0].clone(); senders.push(c); }
                    else if !senders.is_empty() {
                        let before = wakes(&cnt);
                        senders.pop();
                        if senders.is_empty() && waker_registered && wakes(&cnt) == before { fail("A6 wake on last sender drop", format!("round {round}")); }
                    }
                }
            }
        }
        // receiver dropped: try_send is refused
        if let Some(s) = senders.first() { drop(rx); if s.try_send(0).is_ok() { fail("A6 try_send after receiver drop", format!("round {round}")); } }
    }
    println!("OK audit A6 tokio mpsc: try_send refused iff full or receiver gone, FIFO, Pending registers the waker (send / last sender drop wakes), Ready(None) iff empty and no sender: 2000 random histories");
}

#[derive(Default)]
struct GateSt { open: Cell<bool>, waker: RefCell<Option<Waker>> }
struct Gate(Rc<GateSt>);
impl Future for Gate { type Output = (); fn poll(self: Pin<&mut Self>, cx: &mut Context<'_>) -> Poll<()> { if self.0.open.get() { Poll::Ready(()) } else { *self.0.waker.borrow_mut() = Some(cx.waker().clone()); Poll::Pending } } }

/// A8: futures combinators (assumed in DESIGN section 4): for_each_concurrent(limit) keeps at most `limit` closure
/// futures alive, calls the closure once per item; fold is sequential and in order
fn audit_futures(rng: &mut Lcg) {
    for round in 0..300 {
        let n = 1 + rng.below(8) as usize;
        let limit = [None, Some(0usize), Some(1), Some(2), Some(3)][rng.below(5) as usize];
        let gates: Rc<RefCell<Vec<(usize, Rc<GateSt>)>>> = Default::default();
        let calls: Rc<RefCell<Vec<usize>>> = Default::default();
        let (g2, c2) = (gates.clone(), calls.clone());
        let mut fut = Box::pin(stream::iter(0..n).for_each_concurrent(limit, move |i| { c2.borrow_mut().push(i); let st = Rc::new(GateSt::default()); g2.borrow_mut().push((i, st.clone())); Gate(st) }));
        let (w, cnt) = counting_waker();
        let mut guard = 0;
        loop {
            guard += 1; if guard > 10_000 { fail("A8 for_each_concurrent", "no end".into()); }
            let seen = wakes(&cnt);
            let mut cx = ctx(&w);
            if fut.as_mut().poll(&mut cx).is_ready() { break; }
            if wakes(&cnt) != seen { continue; }
            let live = gates.borrow().len();
            if let Some(l) = limit { if l >= 1 && live > l { fail("A8 for_each_concurrent", format!("round {round}: {live} closure futures alive with limit {l}")); } }
            if live == 0 { fail("A8 for_each_concurrent", format!("round {round}: pending with nothing alive")); }
            let k = rng.below(live as u64) as usize;
            let (_, st) = gates.borrow_mut().remove(k);
            st.open.set(true);
            let wk = st.waker.borrow_mut().take();
            if let Some(wk) = wk { wk.wake(); }
        }
        let mut c = calls.borrow().clone(); c.sort();
        if c != (0..n).collect::<Vec<_>>() { fail("A8 for_each_concurrent", format!("round {round}: closure called for {:?}", calls.borrow())); }
        // fold: sequential, in order, one future at a time
        let order: Rc<RefCell<Vec<usize>>> = Default::default();
        let alive = Rc::new(Cell::new(0usize));
        let (o2, a2) = (order.clone(), alive.clone());
        let r = futures::executor::block_on(stream::iter(0..n).fold(0usize, move |acc, i| { let (o, a) = (o2.clone(), a2.clone()); a.set(a.get() + 1); async move { if a.get() != 1 { return usize::MAX; } o.borrow_mut().push(i); a.set(a.get() - 1); acc + 1 } }));
        if r != n || *order.borrow() != (0..n).collect::<Vec<_>>() { fail("A8 fold", format!("round {round}: result {r}, order {:?}", order.borrow())); }
    }
    println!("OK audit A8 futures: for_each_concurrent(limit) keeps at most `limit` closure futures alive (None/0 = unbounded), one closure call per item, completes; fold is sequential and in order: 300 random runs");
}

/// A9: tokio RwLock::try_write succeeds on a free lock, fails while held; A10: std sort_by is a stable permutation
fn audit_misc(rng: &mut Lcg) {
    let l = tokio::sync::RwLock::new(1usize);
    { let g = l.try_write(); if g.is_err() { fail("A9 try_write", "refused on a free lock".into()); } if l.try_write().is_ok() { fail("A9 try_write", "granted twice".into()); } }
    if l.try_write().is_err() { fail("A9 try_write", "refused after the guard was dropped".into()); }
    for _ in 0..500 {
        let n = rng.below(40) as usize;
        let v: Vec<(u8, usize)> = (0..n).map(|i| (rng.below(4) as u8, i)).collect();
        let mut s = v.clone();
        s.sort_by(|a, b| a.0.cmp(&b.0));
        for w in s.windows(2) { if w[0].0 > w[1].0 || (w[0].0 == w[1].0 && w[0].1 > w[1].1) { fail("A10 sort_by", format!("not a stable sort: {s:?}")); } }
        let mut t = s.clone(); t.sort_by_key(|x| x.1); if t != v { fail("A10 sort_by", "not a permutation".into()); }
    }
    println!("OK audit A9 RwLock::try_write, A10 slice::sort_by stable permutation");
}

/// A11: inside a tokio runtime `poll_recv` may return Pending although values are buffered (the task's cooperative budget is
/// used up); the stub allows that only together with a wake-up that is already signalled (`self_woken`), never silently.
/// Also: a try_write on a lock whose read guard is held elsewhere fails (what the S51 stub repair relies on).
fn audit_tokio_runtime() {
    // the poll passes the TASK's context on, as fn_graph does; on a budget-Pending tokio defers the wake-up of that waker to
    // the moment the task yields, so the observable contract is: the task is polled again without any channel event
    let (dtx, drx) = std::sync::mpsc::channel();
    std::thread::spawn(move || {
        let rt = tokio::runtime::Builder::new_current_thread().build().expect("tokio runtime");
        let r = rt.block_on(async {
            let (tx, mut rx) = mpsc::channel::<u32>(1000);
            for i in 0..600 { tx.try_send(i).unwrap(); }
            let mut got = 0usize; let mut spurious = 0usize; let mut polls = 0usize;
            std::future::poll_fn(|cx| {
                polls += 1;
                loop {
                    match rx.poll_recv(cx) {
                        Poll::Ready(Some(v)) => { if v as usize != got { fail("A11 poll_recv", format!("out of order: {v} at position {got}")); } got += 1; if got == 600 { return Poll::Ready(()); } }
                        Poll::Ready(None) => fail("A11 poll_recv", "Ready(None) with a live sender".into()),
                        Poll::Pending => { spurious += 1; return Poll::Pending; } // values are still buffered: only the runtime can wake us
                    }
                }
            }).await;
            drop(tx);
            (spurious, got, polls)
        });
        let _ = dtx.send(r);
    });
    let (spurious, got, polls) = match recv_unless_idle(&drx, 10, 900) {
        Some(x) => x,
        None => fail("A11 poll_recv", "Pending with values still buffered and the task was never polled again (no wake-up scheduled by the runtime)".into()),
    };
    let l = tokio::sync::RwLock::new(1usize);
    let rg = l.try_read().unwrap();
    if l.try_write().is_ok() { fail("A9 try_write", "granted while a read guard is held".into()); }
    drop(rg);
    println!("OK audit A11 tokio runtime: poll_recv returned Pending with values still buffered {spurious} time(s) while draining {got} values; each time the runtime polled the task again by itself ({polls} polls, no channel event in between); try_write fails while a read guard is held");
}

fn main() {
    let seed = std::env::var("VERIF_SEED").ok().and_then(|s| s.parse().ok()).unwrap_or(1u64);
    let mut rng = Lcg(seed.wrapping_mul(2862933555777941757) + 3037000493);
    audit_daggy(&mut rng);
    audit_mpsc(&mut rng);
    audit_futures(&mut rng);
    audit_misc(&mut rng);
    audit_tokio_runtime();
    println!("OK audit_deps: every audited dependency contract agrees with the real crates on the explored inputs");
}
