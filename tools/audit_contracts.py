#!/usr/bin/env python3
"""Modularity audit: every `contract_only` item of a unit (a callee used by contract) must have an owner unit that
verifies its body, and the `@fn` contract sections the two units see must be the same text. Exit 1 on a mismatch."""
import glob, json, os, re, sys, collections
V = os.path.dirname(os.path.dirname(os.path.abspath(__file__)))

def sections(unit):
    ud = os.path.join(V, "units", unit)
    cfg = json.load(open(os.path.join(ud, "unit.json")))
    files = list(cfg["overlays"])
    for v in cfg.get("overlays_if", {}).values():
        files += v
    out = collections.defaultdict(list)
    for f in files:
        p = os.path.normpath(os.path.join(ud, f))
        cur = None
        for line in open(p):
            m = re.match(r"@fn\??\s+(\w+)", line)
            if m:
                cur = m.group(1)
                out[cur].append("")
                continue
            if line.startswith("@"):
                cur = None
            if cur is not None:
                t = line.strip()
                if t and not t.startswith("//"):
                    out[cur][-1] += re.sub(r"\s+", " ", t) + "\n"
    return {k: "".join(sorted(v)) for k, v in out.items()}

owners, users = collections.defaultdict(list), collections.defaultdict(list)
definitional_bad = False
for f in sorted(glob.glob(os.path.join(V, "units", "U*", "unit.json"))):
    u = json.load(open(f)); un = f.split("/")[-2]
    for it in u["items"] + sum(u.get("items_if", {}).values(), []):
        if it["kind"] == "closure":
            # a hoisted closure used by contract in another unit: same anchor (fn, call, nth, arg), named by `as_fn`
            key = ("closure:" + it.get("ident", ""), "%s#%s#%s" % (it.get("call"), it.get("nth", 0), it.get("arg", 0)))
            name = it.get("as_fn") or it.get("name")
            (users if it.get("contract_only") else owners)[key].append((un, name))
        if it["kind"] in ("fn", "impl_fn", "impl"):
            key = (it.get("impl_self", ""), it.get("ident", it.get("name")))
            name = it.get("marker_name") or it.get("rename_fn") or it.get("ident")
            if it.get("contract_only") and it.get("definitional"):
                # a stub whose only clause is `<fn>_rel(args.., r)` with `<fn>_rel` an UNINTERPRETED relation: it defines the
                # relation as the function's input-output behaviour and assumes nothing about it - no owner needed; checked here
                secs = sections(un).get(name, "")
                cl = [c for c in secs.strip().split("\n") if c and c != "ensures"]
                if len(cl) != 1 or not re.match(r"^%s_rel\(.*\),$" % re.escape(it["ident"]), cl[0]):
                    print("NOT DEFINITIONAL", un, name, cl); definitional_bad = True
                continue
            (users if it.get("contract_only") else owners)[key].append((un, name))
bad = 1 if definitional_bad else 0
for key, us in users.items():
    ow = owners.get(key)
    if not ow:
        # an `impl` item of another unit may own it (fn_prefix naming)
        cands = [(un, n) for k, lst in owners.items() for (un, n) in lst if k[0] == key[0] and k[1] in (key[0] + "_impl", key[0])]
        if not cands:
            print("NO OWNER", key, "used by", us); bad += 1
        continue
    oun, oname = ow[0]
    osec = sections(oun)
    for (un, name) in us:
        usec = sections(un)
        a, b = osec.get(oname, osec.get(name)), usec.get(name)
        if b is None:
            continue  # the user unit states no contract for the stub: nothing is assumed about the call
        if a is None:
            print("NO CONTRACT SECTION", key, "owner", oun, oname, a is not None, "user", un, name, b is not None); bad += 1
        elif a != b:
            print("CONTRACT TEXT DIFFERS", key, "owner", oun, "user", un); bad += 1
print("audit: %d contract-only uses, %d problems" % (sum(len(v) for v in users.values()), bad))
sys.exit(1 if bad else 0)
