#!/usr/bin/env python3
"""Glue account: which lines of the crate's functions are under NO contract, and did they change?

Every unit puts whole functions, prologues, closures or tail pieces of /repo under contract. What lies between those
pieces - a `join!`, a channel construction, a `drop(tx)`, a `collect()`, a pass-through wrapper - is *unverified glue*:
the proofs assume it behaves as the execution model of DESIGN section 5 says. That assumption was reviewed against a
specific text. This tool computes, from the extractor's `covered` line ranges of every unit and feature set, the
uncovered text of every function of src/ (outside test modules), normalises it (comments, blank lines, whitespace) and
compares its SHA-256 with the reviewed baseline `glue_baseline.json`.

  glue.py --write            regenerate the baseline from /repo (done by hand after reviewing the diff; never at check time)
  glue.py --check [--repo R] print JSON {"changed": [{"file","fn","status"}...]}; status: changed | new | gone
  glue.py --report           human-readable list of the glue per function (for DESIGN / evidence)

A difference never is a violation: `check` turns it into UNDECIDED (`unverified-glue-changed`) for the properties
whose argument passes through that file, and the bounded native search decides by example."""
import glob
import hashlib
import json
import os
import re
import sys

VERIF = os.path.dirname(os.path.dirname(os.path.abspath(__file__)))
sys.path.insert(0, os.path.join(VERIF, "vx"))
from assemble import run_extract, unit_items, Undecided  # noqa: E402

BASELINE = os.path.join(VERIF, "glue_baseline.json")


def _cover_one(args):
    repo, workdir, p, fs = args
    cfg = json.load(open(p))
    items = unit_items(cfg, fs)
    try:
        ex = run_extract(repo, fs, items, workdir)
    except Undecided:
        # per-item fallback: one lost anchor must not uncover the whole unit
        ex = {}
        for it in items:
            try:
                ex.update(run_extract(repo, fs, [it], workdir))
            except Undecided:
                pass
    return [(v["file"], v.get("covered", [])) for v in ex.values()]


def covered_lines(repo, workdir):
    """file -> set of covered line numbers, over all units and feature sets (an extraction that fails covers nothing)"""
    from concurrent.futures import ThreadPoolExecutor
    jobs = []
    for p in sorted(glob.glob(os.path.join(VERIF, "units", "*", "unit.json"))):
        for fs in json.load(open(p)).get("feature_sets", [[]]):
            jobs.append((repo, workdir, p, fs))
    cov = {}
    with ThreadPoolExecutor(max_workers=16) as ex:
        for lst in ex.map(_cover_one, jobs):
            for f, rs in lst:
                s_ = cov.setdefault(f, set())
                for lo, hi in rs:
                    s_.update(range(lo, hi + 1))
    return cov


def normalise(lines):
    out = []
    for l in lines:
        l = re.sub(r'//.*$', '', l).strip()
        if l:
            out.append(re.sub(r'\s+', ' ', l))
    return out


def glue_of(repo, workdir):
    cov = covered_lines(repo, workdir)
    res = {}
    files = sorted(glob.glob(os.path.join(repo, "src", "**", "*.rs"), recursive=True))
    for f in files:
        rel = os.path.relpath(f, repo)
        if rel == "src/verif_hooks.rs":
            continue  # this machinery's own instrumentation, compiled out in the verified configuration
        try:
            idx = run_extract(repo, [], [{"name": "idx", "file": rel, "kind": "fn_index"}], workdir)
        except Undecided:
            res[rel + "::<file>"] = {"sha": "unparsable", "lines": 0, "text": []}
            continue
        fns = json.loads(idx["idx"]["text"])
        src = open(f).read().split("\n")
        c = cov.get(rel, set())
        seen = {}
        for fn in fns:
            lo, hi = fn["span"]
            unc = [src[i - 1] for i in range(lo, hi + 1) if i not in c and i - 1 < len(src)]
            # attributes / doc comments above the fn keyword are not behaviour
            body = []
            started = False
            for l in unc:
                if not started and (l.strip().startswith("#[") and "cfg" not in l or l.strip().startswith("///")):
                    continue
                started = True
                body.append(l)
            norm = normalise(body)
            if not norm:
                continue
            k = seen.get(fn["name"], 0)
            seen[fn["name"]] = k + 1
            key = f"{rel}::{fn['name']}" + (f"#{k}" if k else "")
            res[key] = {"sha": hashlib.sha256("\n".join(norm).encode()).hexdigest(), "lines": len(norm), "text": norm}
    # the manifest and the locked versions of the dependencies whose contracts are assumed (prelude/): the assumed contracts
    # were written for these versions and feature selections
    try:
        man = normalise([l for l in open(os.path.join(repo, "Cargo.toml")).read().split("\n") if not l.strip().startswith("#")])
        res["Cargo.toml::manifest"] = {"sha": hashlib.sha256("\n".join(man).encode()).hexdigest(), "lines": len(man), "text": man}
        lock = open(os.path.join(repo, "Cargo.lock")).read()
        pins = []
        for dep in ("daggy", "petgraph", "fixedbitset", "tokio", "futures", "futures-util", "futures-core", "interruptible", "serde", "resman"):
            for m in re.finditer(r'name = "%s"\nversion = "([^"]+)"' % re.escape(dep), lock):
                pins.append(f"{dep} {m.group(1)}")
        res["Cargo.lock::assumed-dependency-versions"] = {"sha": hashlib.sha256("\n".join(pins).encode()).hexdigest(), "lines": len(pins), "text": pins}
    except OSError:
        res["Cargo.toml::manifest"] = {"sha": "unreadable", "lines": 0, "text": []}
    return res


def main():
    args = sys.argv[1:]
    repo = "/repo"
    if "--repo" in args:
        repo = args[args.index("--repo") + 1]
    workdir = os.path.join(VERIF, "out", "glue_" + os.path.basename(repo.rstrip("/")) + "_" + str(os.getpid()))
    os.makedirs(workdir, exist_ok=True)
    try:
        g = glue_of(repo, workdir)
    finally:
        import shutil
        shutil.rmtree(workdir, ignore_errors=True)
    if "--write" in args:
        json.dump({k: {"sha": v["sha"], "lines": v["lines"], "text": v["text"]} for k, v in sorted(g.items())}, open(BASELINE, "w"), indent=1)
        print(f"wrote {BASELINE}: {len(g)} functions with unverified glue, {sum(v['lines'] for v in g.values())} lines")
        return 0
    if "--report" in args:
        for k, v in sorted(g.items()):
            print(f"{k}  ({v['lines']} lines)")
            for l in v["text"][:400]:
                print("    " + l)
        return 0
    base = json.load(open(BASELINE)) if os.path.exists(BASELINE) else {}
    changed = []
    for k, v in g.items():
        if k not in base:
            changed.append({"file": k.split("::")[0], "fn": k.split("::", 1)[1], "status": "new"})
        elif base[k]["sha"] != v["sha"]:
            changed.append({"file": k.split("::")[0], "fn": k.split("::", 1)[1], "status": "changed"})
    for k in base:
        if k not in g:
            # glue that disappeared: the function was removed / renamed, or is now covered - only the former matters
            changed.append({"file": k.split("::")[0], "fn": k.split("::", 1)[1], "status": "gone"})
    print(json.dumps({"changed": changed, "functions_with_glue": len(g), "glue_lines": sum(v["lines"] for v in g.values())}))
    return 0


if __name__ == "__main__":
    sys.exit(main())
