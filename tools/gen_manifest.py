#!/usr/bin/env python3
"""Generates MANIFEST.json from vx/props.py + tools/manifest_meta.json."""
import json, os, sys
V = os.path.dirname(os.path.dirname(os.path.abspath(__file__)))
sys.path.insert(0, os.path.join(V, "vx"))
import props as P
meta = json.load(open(os.path.join(V, "tools", "manifest_meta.json")))
allp = [json.loads(l)["id"] for l in open(os.path.join(V, "properties.jsonl"))]
checks = []
for pid in allp:
    if pid in P.PROPS and pid in meta["checks"]:
        m = meta["checks"][pid]
        checks.append({
            "property_id": pid,
            "quick_cmd": f"./check {pid} --tier quick",
            "thorough_cmd": f"./check {pid} --tier thorough",
            "evidence_file": f"/verif/evidence/{pid}.json",
            "replay_cmd_template": "./check-replay {path}",
            "engine": "vx",
            "level_claimed": {"category": m.get("category", "proof"), "text": m["text"], "design_ref": m.get("design_ref", "DESIGN.md §6")},
            "level_note": m["note"],
            "technique": m.get("technique", "contract-based deductive verification (Verus) of functions re-extracted from /repo"),
        })
na = [{"property_id": pid, "reason": meta["not_applicable"].get(pid, "not yet brought under contract in this build of the framework (see DESIGN.md §13 build order)")}
      for pid in allp if not (pid in P.PROPS and pid in meta["checks"])]
man = {
    "version": 1,
    "setup_cmd": "cd /verif/tools/vx-extract && CARGO_NET_OFFLINE=true cargo build --offline --release",
    "hooks": meta["hooks"],
    "engines": [{"name": "vx", "path": "/verif/check", "serves_properties": [c["property_id"] for c in checks],
                 "kind_free_text": "syn-based extractor of real functions + overlay contracts + Verus; Kani for loop-free scalar functions; rustc trait solver for auto traits"}],
    "checks": checks,
    "notes": meta.get("notes", ""),
    "not_applicable": na,
}
json.dump(man, open(os.path.join(V, "MANIFEST.json"), "w"), indent=1)
print("checks:", [c["property_id"] for c in checks], "n/a:", [n["property_id"] for n in na])
