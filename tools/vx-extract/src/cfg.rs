//! R0: evaluate `#[cfg(..)]` for a chosen feature set and drop all other attributes.

use std::collections::BTreeSet;
use syn::punctuated::Punctuated;
use syn::visit_mut::{self, VisitMut};
use syn::*;

pub struct CfgEval<'a> {
    pub features: &'a BTreeSet<String>,
    pub fired: usize,
}

pub fn eval_meta(m: &Meta, features: &BTreeSet<String>) -> bool {
    match m {
        Meta::NameValue(nv) if nv.path.is_ident("feature") => {
            if let Expr::Lit(ExprLit { lit: Lit::Str(s), .. }) = &nv.value {
                features.contains(&s.value())
            } else {
                false
            }
        }
        Meta::List(l) if l.path.is_ident("all") => {
            let inner = l.parse_args_with(Punctuated::<Meta, Token![,]>::parse_terminated).unwrap();
            inner.iter().all(|m| eval_meta(m, features))
        }
        Meta::List(l) if l.path.is_ident("any") => {
            let inner = l.parse_args_with(Punctuated::<Meta, Token![,]>::parse_terminated).unwrap();
            inner.iter().any(|m| eval_meta(m, features))
        }
        Meta::List(l) if l.path.is_ident("not") => {
            let inner = l.parse_args_with(Punctuated::<Meta, Token![,]>::parse_terminated).unwrap();
            !inner.iter().all(|m| eval_meta(m, features))
        }
        // test, coverage_nightly, target_arch = .. : all false for the verified configuration
        _ => false,
    }
}

impl<'a> CfgEval<'a> {
    fn active(&mut self, attrs: &[Attribute]) -> bool {
        let mut ok = true;
        for a in attrs {
            if a.path().is_ident("cfg") {
                self.fired += 1;
                if let Meta::List(l) = &a.meta {
                    let inner = l.parse_args::<Meta>().unwrap();
                    if !eval_meta(&inner, self.features) {
                        ok = false;
                    }
                }
            }
        }
        ok
    }
    fn filter_exprs(&mut self, p: &mut Punctuated<Expr, Token![,]>) {
        let old = std::mem::take(p);
        for e in old.into_iter() {
            if self.active(expr_attrs(&e)) {
                p.push(e);
            }
        }
    }
}

fn expr_attrs(e: &Expr) -> &[Attribute] {
    macro_rules! m { ($($v:ident),*) => { match e { $(Expr::$v(x) => &x.attrs,)* _ => &[] } } }
    m!(
        Array, Assign, Async, Await, Binary, Block, Break, Call, Cast, Closure, Const, Continue, Field,
        ForLoop, Group, If, Index, Infer, Let, Lit, Loop, Macro, Match, MethodCall, Paren, Path, Range,
        RawAddr, Reference, Repeat, Return, Struct, Try, TryBlock, Tuple, Unary, Unsafe, While, Yield
    )
}

fn clear_expr_attrs(e: &mut Expr) {
    macro_rules! m { ($($v:ident),*) => { match e { $(Expr::$v(x) => x.attrs.clear(),)* _ => {} } } }
    m!(
        Array, Assign, Async, Await, Binary, Block, Break, Call, Cast, Closure, Const, Continue, Field,
        ForLoop, Group, If, Index, Infer, Let, Lit, Loop, Macro, Match, MethodCall, Paren, Path, Range,
        RawAddr, Reference, Repeat, Return, Struct, Try, TryBlock, Tuple, Unary, Unsafe, While, Yield
    )
}

fn pat_attrs(p: &Pat) -> &[Attribute] {
    match p {
        Pat::Ident(x) => &x.attrs,
        Pat::Type(x) => &x.attrs,
        Pat::Wild(x) => &x.attrs,
        Pat::Tuple(x) => &x.attrs,
        Pat::Reference(x) => &x.attrs,
        Pat::Struct(x) => &x.attrs,
        Pat::TupleStruct(x) => &x.attrs,
        _ => &[],
    }
}

fn clear_pat_attrs(p: &mut Pat) {
    match p {
        Pat::Ident(x) => x.attrs.clear(),
        Pat::Type(x) => x.attrs.clear(),
        Pat::Wild(x) => x.attrs.clear(),
        Pat::Tuple(x) => x.attrs.clear(),
        Pat::Reference(x) => x.attrs.clear(),
        Pat::Struct(x) => x.attrs.clear(),
        Pat::TupleStruct(x) => x.attrs.clear(),
        _ => {}
    }
}

fn item_attrs(i: &Item) -> &[Attribute] {
    match i {
        Item::Const(x) => &x.attrs,
        Item::Enum(x) => &x.attrs,
        Item::Fn(x) => &x.attrs,
        Item::Impl(x) => &x.attrs,
        Item::Mod(x) => &x.attrs,
        Item::Struct(x) => &x.attrs,
        Item::Trait(x) => &x.attrs,
        Item::Type(x) => &x.attrs,
        Item::Use(x) => &x.attrs,
        Item::Static(x) => &x.attrs,
        _ => &[],
    }
}

impl<'a> VisitMut for CfgEval<'a> {
    fn visit_file_mut(&mut self, f: &mut File) {
        let old = std::mem::take(&mut f.items);
        f.items = old.into_iter().filter(|i| self.active(item_attrs(i))).collect();
        visit_mut::visit_file_mut(self, f);
    }
    fn visit_item_mod_mut(&mut self, m: &mut ItemMod) {
        if let Some((_, items)) = &mut m.content {
            let old = std::mem::take(items);
            *items = old.into_iter().filter(|i| self.active(item_attrs(i))).collect();
        }
        visit_mut::visit_item_mod_mut(self, m);
    }
    fn visit_item_impl_mut(&mut self, im: &mut ItemImpl) {
        let old = std::mem::take(&mut im.items);
        im.items = old
            .into_iter()
            .filter(|i| match i {
                ImplItem::Fn(f) => self.active(&f.attrs),
                ImplItem::Const(c) => self.active(&c.attrs),
                ImplItem::Type(t) => self.active(&t.attrs),
                _ => true,
            })
            .collect();
        visit_mut::visit_item_impl_mut(self, im);
    }
    fn visit_fields_named_mut(&mut self, f: &mut FieldsNamed) {
        let old = std::mem::take(&mut f.named);
        for x in old.into_iter() {
            if self.active(&x.attrs) {
                f.named.push(x);
            }
        }
        visit_mut::visit_fields_named_mut(self, f);
    }
    fn visit_signature_mut(&mut self, s: &mut Signature) {
        let old = std::mem::take(&mut s.inputs);
        for mut a in old.into_iter() {
            let ok = match &a {
                FnArg::Receiver(r) => self.active(&r.attrs),
                FnArg::Typed(t) => self.active(&t.attrs),
            };
            if ok {
                match &mut a {
                    FnArg::Receiver(r) => r.attrs.clear(),
                    FnArg::Typed(t) => t.attrs.clear(),
                }
                s.inputs.push(a);
            }
        }
        visit_mut::visit_signature_mut(self, s);
    }
    fn visit_block_mut(&mut self, b: &mut Block) {
        let old = std::mem::take(&mut b.stmts);
        for mut st in old.into_iter() {
            let ok = match &st {
                Stmt::Local(l) => self.active(&l.attrs),
                Stmt::Expr(e, _) => self.active(expr_attrs(e)),
                Stmt::Macro(m) => self.active(&m.attrs),
                Stmt::Item(i) => self.active(item_attrs(i)),
            };
            if ok {
                match &mut st {
                    Stmt::Local(l) => l.attrs.clear(),
                    Stmt::Expr(e, _) => clear_expr_attrs(e),
                    Stmt::Macro(m) => m.attrs.clear(),
                    _ => {}
                }
                b.stmts.push(st);
            }
        }
        visit_mut::visit_block_mut(self, b);
    }
    fn visit_expr_call_mut(&mut self, e: &mut ExprCall) {
        self.filter_exprs(&mut e.args);
        for a in e.args.iter_mut() {
            clear_expr_attrs(a);
        }
        visit_mut::visit_expr_call_mut(self, e);
    }
    fn visit_expr_method_call_mut(&mut self, e: &mut ExprMethodCall) {
        self.filter_exprs(&mut e.args);
        for a in e.args.iter_mut() {
            clear_expr_attrs(a);
        }
        visit_mut::visit_expr_method_call_mut(self, e);
    }
    fn visit_expr_tuple_mut(&mut self, e: &mut ExprTuple) {
        self.filter_exprs(&mut e.elems);
        visit_mut::visit_expr_tuple_mut(self, e);
    }
    fn visit_expr_struct_mut(&mut self, e: &mut ExprStruct) {
        let old = std::mem::take(&mut e.fields);
        for mut f in old.into_iter() {
            if self.active(&f.attrs) {
                f.attrs.clear();
                e.fields.push(f);
            }
        }
        if e.rest.is_some() && !e.fields.is_empty() && !e.fields.trailing_punct() {
            // `Self { a: x, ..base }`: the separator before `..` was dropped with the rebuilt field list
            e.fields.push_punct(Default::default());
        }
        visit_mut::visit_expr_struct_mut(self, e);
    }
    fn visit_pat_struct_mut(&mut self, p: &mut PatStruct) {
        let old = std::mem::take(&mut p.fields);
        for mut f in old.into_iter() {
            if self.active(&f.attrs) {
                f.attrs.clear();
                p.fields.push(f);
            }
        }
        visit_mut::visit_pat_struct_mut(self, p);
    }
    fn visit_expr_closure_mut(&mut self, c: &mut ExprClosure) {
        let old = std::mem::take(&mut c.inputs);
        for mut p in old.into_iter() {
            if self.active(pat_attrs(&p)) {
                clear_pat_attrs(&mut p);
                c.inputs.push(p);
            }
        }
        visit_mut::visit_expr_closure_mut(self, c);
    }
    fn visit_expr_match_mut(&mut self, m: &mut ExprMatch) {
        let old = std::mem::take(&mut m.arms);
        for mut a in old.into_iter() {
            if self.active(&a.attrs) {
                a.attrs.clear();
                m.arms.push(a);
            }
        }
        visit_mut::visit_expr_match_mut(self, m);
    }
}
