//! Rewrite rules R1..R12 (DESIGN.md §3.2) and marker insertion.

use proc_macro2::{Span, TokenStream};
use quote::{format_ident, quote, ToTokens};
use serde_json::Value;
use std::collections::HashMap;
use syn::visit::Visit;
use syn::visit_mut::{self, VisitMut};
use syn::*;

use crate::fail;

fn id(s: &str) -> Ident {
    Ident::new(s, Span::call_site())
}

pub fn kept_derives(attrs: &[Attribute], item: &Value) -> TokenStream {
    // Only Clone/Copy (and what the unit asks for) are kept; everything else is dropped (R0).
    let want: Vec<String> = item
        .get("keep_derives")
        .and_then(|x| x.as_array())
        .map(|a| a.iter().filter_map(|x| x.as_str().map(String::from)).collect())
        .unwrap_or_else(|| vec!["Clone".into(), "Copy".into()]);
    let mut kept = vec![];
    for a in attrs {
        if a.path().is_ident("derive") {
            if let Meta::List(l) = &a.meta {
                let inner = l
                    .parse_args_with(punctuated::Punctuated::<Path, Token![,]>::parse_terminated)
                    .unwrap();
                for p in inner {
                    let n = p.segments.last().unwrap().ident.to_string();
                    if want.contains(&n) {
                        kept.push(id(&n));
                    }
                }
            }
        }
    }
    // R24: a field-less enum / plain struct whose source derives BOTH PartialEq and Eq and that the unit keeps both for gets
    // Verus' `Structural` marker when the unit asks for it (`"structural": true`): the derived `==` is structural equality
    // (std derive contract), so `a == b` in executable code means the same as in specifications.
    if item.get("structural").and_then(|x| x.as_bool()).unwrap_or(false) {
        let has = |n: &str| kept.iter().any(|k| k == n);
        if has("PartialEq") && has("Eq") {
            kept.push(id("Structural"));
        } else {
            fail("config", "structural: the source does not derive PartialEq and Eq (or the unit does not keep them)".into());
        }
    }
    if kept.is_empty() {
        quote! {}
    } else {
        quote! { #[derive(#(#kept),*)] }
    }
}

pub fn clean_where(w: Option<&WhereClause>) -> TokenStream {
    match w {
        Some(w) => w.to_token_stream(),
        None => quote! {},
    }
}

pub fn clean_sig(sig: &mut Signature) {
    // lifetimes and bounds stay; `impl Trait` in argument position is left to Verus.
    let _ = sig;
}

pub fn ret_marker(sig: &mut Signature) -> bool {
    if let ReturnType::Type(_, ty) = &mut sig.output {
        let inner = ty.to_token_stream();
        **ty = parse_quote! { vx_ret!(#inner) };
        true
    } else {
        false
    }
}

// ------------------------------------------------------------------------------------------
// helpers

struct HasReturn(bool);
impl<'ast> Visit<'ast> for HasReturn {
    fn visit_expr_return(&mut self, _: &'ast ExprReturn) {
        self.0 = true;
    }
    fn visit_expr_closure(&mut self, _: &'ast ExprClosure) {}
}

struct HasTry(bool);
impl<'ast> Visit<'ast> for HasTry {
    fn visit_expr_try(&mut self, _: &'ast ExprTry) {
        self.0 = true;
    }
    fn visit_expr_closure(&mut self, _: &'ast ExprClosure) {}
}

fn closure_body_stmts(c: &ExprClosure) -> Vec<Stmt> {
    match &*c.body {
        Expr::Block(b) if b.label.is_none() => b.block.stmts.clone(),
        e => vec![Stmt::Expr(e.clone(), None)],
    }
}

fn closure_body_expr(c: &ExprClosure) -> Expr {
    (*c.body).clone()
}

fn strip_pat_type(p: &Pat) -> Pat {
    match p {
        Pat::Type(t) => (*t.pat).clone(),
        p => p.clone(),
    }
}

fn single_closure_arg(e: &ExprMethodCall) -> Option<&ExprClosure> {
    if e.args.len() == 1 {
        if let Expr::Closure(c) = &e.args[0] {
            return Some(c);
        }
    }
    None
}

fn unit_tail_to_stmt(stmts: &mut Vec<Stmt>) {
    if let Some(Stmt::Expr(_, semi @ None)) = stmts.last_mut() {
        *semi = Some(Default::default());
    }
}

pub struct Rewriter<'a> {
    pub fired: &'a mut Vec<String>,
    pub name: &'a str,
    pub counter: usize,
    pub rename_methods: HashMap<String, String>,
    pub effects: Vec<String>,
    pub user_calls: Vec<String>,
    pub world: bool,
    pub collect_type: Option<String>,
    pub drop_takes: bool,
    pub drop_fn: String,
    pub user_call_ret: Option<String>,
    pub user_call_try: bool,
    pub user_call_sync: bool,
    /// fn name -> generic argument added to calls that have none (type information lost by R16 truncation)
    pub turbofish: HashMap<String, String>,
    /// receiver identifier -> (method -> new name): e.g. the result channel's `send`
    pub rename_methods_on: HashMap<String, HashMap<String, String>>,
    /// crate-local async fns: `f(args).await` is the sequential call `f(args, Tracked(w))`
    pub async_fns: Vec<String>,
    pub await_methods: Vec<String>,
    pub fold_step_fn: Option<String>,
    pub fold_step_args: Vec<String>,
    pub recv_stream_fn: Option<String>,
    /// R15: method name -> kinds ("poll" | "option") for successive occurrences (pre-order)
    pub desugar: HashMap<String, Vec<String>>,
    pub desugar_seen: HashMap<String, usize>,
}

impl<'a> Rewriter<'a> {
    fn fresh(&mut self) -> usize {
        self.counter += 1;
        self.counter
    }

    /// R1: `E.for_each(|P| B)`
    fn r1_for_each(&mut self, e: &ExprMethodCall) -> Option<Expr> {
        let c = single_closure_arg(e)?;
        if c.inputs.len() != 1 {
            return None;
        }
        let mut hr = HasReturn(false);
        hr.visit_expr(&c.body);
        if hr.0 {
            fail("rule-refused", format!("{}: R1 closure body contains `return`", self.name));
        }
        let n = self.fresh();
        let it = format_ident!("vx_itR{}", n);
        let recv = &e.receiver;
        let pat = strip_pat_type(&c.inputs[0]);
        let mut body = closure_body_stmts(c);
        unit_tail_to_stmt(&mut body);
        self.fired.push("R1-for_each".into());
        Some(parse_quote! {{
            let mut #it = #recv;
            while let Some(#pat) = #it.next() {
                #(#body)*
            }
        }})
    }

    /// R19: `IntoIterator::into_iter(A).zip(B.iter_mut()).try_for_each(|(PA, y)| BODY)` over two arrays of the same
    /// length ⇒ index loop; `*y` in BODY is the place `B[vx_i]`
    fn r19_zip_iter_mut(&mut self, e: &ExprMethodCall) -> Option<Expr> {
        let c = single_closure_arg(e)?;
        let zip = match &*e.receiver { Expr::MethodCall(z) if z.method == "zip" && z.args.len() == 1 => z, _ => return None };
        let a = match &*zip.receiver {
            Expr::Call(call) if call.args.len() == 1 && call.func.to_token_stream().to_string().replace(' ', "") == "IntoIterator::into_iter" => call.args[0].clone(),
            _ => return None,
        };
        let b = match &zip.args[0] { Expr::MethodCall(im) if im.method == "iter_mut" && im.args.is_empty() => (*im.receiver).clone(), _ => return None };
        let (pa, y) = match strip_pat_type(&c.inputs[0]) {
            Pat::Tuple(t) if t.elems.len() == 2 => match &t.elems[1] { Pat::Ident(pi) => (t.elems[0].clone(), pi.ident.clone()), _ => return None },
            _ => return None,
        };
        let n = self.fresh();
        let res = format_ident!("vx_resR{}", n);
        let mut body = closure_body_expr(c);
        struct DerefY<'b> { y: &'b Ident, b: &'b Expr }
        impl<'b> VisitMut for DerefY<'b> {
            fn visit_expr_mut(&mut self, e: &mut Expr) {
                if let Expr::Unary(u) = e {
                    if matches!(u.op, UnOp::Deref(_)) {
                        if let Expr::Path(p) = &*u.expr {
                            if p.path.get_ident() == Some(self.y) {
                                let b = self.b;
                                *e = parse_quote! { #b[vx_i] };
                                return;
                            }
                        }
                    }
                }
                visit_mut::visit_expr_mut(self, e);
            }
        }
        DerefY { y: &y, b: &b }.visit_expr_mut(&mut body);
        self.fired.push("R19-zip-iter_mut-index-loop".into());
        Some(parse_quote! {{
            let mut #res = Ok(());
            let mut vx_i: usize = 0;
            while vx_i < #a.len() {
                let #pa = #a[vx_i];
                match #body {
                    Ok(()) => {}
                    Err(vx_e) => { #res = Err(vx_e); break; }
                }
                vx_i += 1;
            }
            #res
        }})
    }

    /// R1: `E.try_for_each(|P| B)`; `?` inside B exits the loop with the error.
    fn r1_try_for_each(&mut self, e: &ExprMethodCall) -> Option<Expr> {
        if let Some(r) = self.r19_zip_iter_mut(e) {
            return Some(r);
        }
        let c = single_closure_arg(e)?;
        if c.inputs.len() != 1 {
            return None;
        }
        let mut hr = HasReturn(false);
        hr.visit_expr(&c.body);
        if hr.0 {
            fail("rule-refused", format!("{}: R1 closure body contains `return`", self.name));
        }
        let n = self.fresh();
        let it = format_ident!("vx_itR{}", n);
        let res = format_ident!("vx_resR{}", n);
        let recv = &e.receiver;
        let pat = strip_pat_type(&c.inputs[0]);
        let mut body = closure_body_expr(c);
        // `?` in the closure body returned from the closure: now leaves the loop
        struct TryToBreak<'b> {
            res: &'b Ident,
        }
        impl<'b> VisitMut for TryToBreak<'b> {
            fn visit_expr_mut(&mut self, e: &mut Expr) {
                visit_mut::visit_expr_mut(self, e);
                if let Expr::Try(t) = e {
                    let inner = &t.expr;
                    let res = self.res;
                    *e = parse_quote! {
                        match #inner {
                            Ok(vx_v) => vx_v,
                            Err(vx_e) => { #res = Err(vx_e); break; }
                        }
                    };
                }
            }
            fn visit_expr_closure_mut(&mut self, _: &mut ExprClosure) {}
        }
        TryToBreak { res: &res }.visit_expr_mut(&mut body);
        self.fired.push("R1-try_for_each".into());
        Some(parse_quote! {{
            let mut #res = Ok(());
            let mut #it = #recv;
            while let Some(#pat) = #it.next() {
                match #body {
                    Ok(()) => {}
                    Err(vx_e) => { #res = Err(vx_e); break; }
                }
            }
            #res
        }})
    }

    /// R2': `A.zip(B).try_fold(init, |acc, (x, y)| BODY)` with BODY: ControlFlow ⇒ loop over both iterators
    /// (std: zip stops when either ends; try_fold stops at the first Break)
    fn r2_zip_try_fold(&mut self, e: &ExprMethodCall) -> Option<Expr> {
        if e.args.len() != 2 {
            return None;
        }
        let c = match &e.args[1] { Expr::Closure(c) if c.inputs.len() == 2 => c, _ => return None };
        let zip = match &*e.receiver { Expr::MethodCall(z) if z.method == "zip" && z.args.len() == 1 => z, _ => return None };
        let a = &zip.receiver;
        let b = &zip.args[0];
        let n = self.fresh();
        let acc = format_ident!("vx_accR{}", n);
        let ita = format_ident!("vx_itR{}", n);
        let itb = format_ident!("vx_itbR{}", n);
        let init = &e.args[0];
        let acc_pat = strip_pat_type(&c.inputs[0]);
        let (px, py) = match strip_pat_type(&c.inputs[1]) { Pat::Tuple(t) if t.elems.len() == 2 => (t.elems[0].clone(), t.elems[1].clone()), _ => return None };
        let body = closure_body_expr(c);
        self.fired.push("R2'-zip-try_fold".into());
        Some(parse_quote! {{
            let mut #acc = ControlFlow::Continue(#init);
            let mut #ita = #a;
            let mut #itb = #b;
            while let Some(#px) = #ita.next() {
                match #itb.next() {
                    Some(#py) => {
                        let #acc_pat = match #acc { ControlFlow::Continue(vx_v) => vx_v, ControlFlow::Break(vx_v) => vx_v };
                        #acc = #body;
                        if let ControlFlow::Break(vx_unused) = &#acc { break; }
                    }
                    None => { break; }
                }
            }
            #acc
        }})
    }

    /// R2: `E.fold(init, |acc, P| B)`
    fn r2_fold(&mut self, e: &ExprMethodCall) -> Option<Expr> {
        if e.args.len() != 2 {
            return None;
        }
        let c = match &e.args[1] {
            Expr::Closure(c) => c,
            _ => return None,
        };
        if c.inputs.len() != 2 {
            return None;
        }
        let n = self.fresh();
        let it = format_ident!("vx_itR{}", n);
        let acc = format_ident!("vx_accR{}", n);
        let recv = &e.receiver;
        let init = &e.args[0];
        let acc_pat = strip_pat_type(&c.inputs[0]);
        let pat = strip_pat_type(&c.inputs[1]);
        let body = closure_body_expr(c);
        self.fired.push("R2-fold".into());
        Some(parse_quote! {{
            let mut #acc = #init;
            let mut #it = #recv;
            while let Some(#pat) = #it.next() {
                let #acc_pat = #acc;
                #acc = #body;
            }
            #acc
        }})
    }

    /// R3: `E.filter_map(f).collect::<C>()`, `E.map(f).collect::<C>()`, `E.filter(f).collect::<C>()`
    fn r3_collect(&mut self, e: &ExprMethodCall) -> Option<Expr> {
        let turbofish = e.turbofish.as_ref()?;
        let mut cty = match turbofish.args.first()? {
            GenericArgument::Type(t) => t.clone(),
            _ => return None,
        };
        if cty.to_token_stream().to_string().contains('_') {
            // `collect::<Vec<_>>()`: the element type comes from the unit (a wrong one is a type error => exit 2)
            if let Some(t) = &self.collect_type {
                cty = syn::parse_str(t).unwrap();
                self.fired.push("R3-collect-type-from-unit".into());
            }
        }
        let inner = match &*e.receiver {
            Expr::MethodCall(m) => m,
            _ => return None,
        };
        let cname = match &cty {
            Type::Path(p) => p.path.segments.last()?.ident.to_string(),
            _ => return None,
        };
        let push = match cname.as_str() {
            "Vec" => id("push"),
            "VecDeque" => id("push_back"),
            _ => return None,
        };
        let adapter = inner.method.to_string();
        if inner.args.len() != 1 {
            return None;
        }
        let n = self.fresh();
        let it = format_ident!("vx_itR{}", n);
        let col = format_ident!("vx_cR{}", n);
        let recv = &inner.receiver;
        let (pat, body): (Pat, Vec<Stmt>) = match (&inner.args[0], adapter.as_str()) {
            (Expr::Closure(c), "filter_map") if c.inputs.len() == 1 => {
                let b = closure_body_expr(c);
                (
                    strip_pat_type(&c.inputs[0]),
                    vec![parse_quote! {
                        match #b { Some(vx_x) => { #col.#push(vx_x); } None => {} }
                    }],
                )
            }
            (Expr::Closure(c), "map") if c.inputs.len() == 1 => {
                let b = closure_body_expr(c);
                (
                    strip_pat_type(&c.inputs[0]),
                    vec![parse_quote! { let vx_x = #b; }, parse_quote! { #col.#push(vx_x); }],
                )
            }
            (Expr::Path(p), "map") => (
                parse_quote! { vx_x },
                vec![parse_quote! { let vx_y = #p(vx_x); }, parse_quote! { #col.#push(vx_y); }],
            ),
            _ => return None,
        };
        self.fired.push(format!("R3-{}-collect", adapter));
        Some(parse_quote! {{
            let mut #col = <#cty>::new();
            let mut #it = #recv;
            while let Some(#pat) = #it.next() {
                #(#body)*
            }
            #col
        }})
    }
}

impl<'a> Rewriter<'a> {
    /// R15: `Poll::map`, `Option::map`, `Option::inspect` with a closure argument become `match`es
    /// (std's definitions of these combinators); the receiver kind comes from the unit's configuration.
    fn r15_desugar(&mut self, e: &ExprMethodCall) -> Option<Expr> {
        let name = e.method.to_string();
        let c = single_closure_arg(e)?;
        if c.inputs.len() != 1 {
            return None;
        }
        let k = *self.desugar_seen.get(&name).unwrap_or(&0);
        self.desugar_seen.insert(name.clone(), k + 1);
        let kind = self.desugar.get(&name)?.get(k)?.clone();
        let recv = &e.receiver;
        let pat = strip_pat_type(&c.inputs[0]);
        let body = closure_body_expr(c);
        self.fired.push(format!("R15-{}-{}", name, kind));
        match (name.as_str(), kind.as_str()) {
            ("map", "poll") => Some(parse_quote! {
                match #recv { Poll::Ready(#pat) => Poll::Ready(#body), Poll::Pending => Poll::Pending }
            }),
            ("map", "option") => Some(parse_quote! {
                match #recv { Some(#pat) => Some(#body), None => None }
            }),
            ("map", "result") => Some(parse_quote! {
                match #recv { Ok(#pat) => Ok(#body), Err(vx_e) => Err(vx_e) }
            }),
            ("inspect", "option") => {
                // `|&x| B` on an Option<T: Copy>: bind x by value
                let inner: Pat = match &pat {
                    Pat::Reference(r) => (*r.pat).clone(),
                    p => p.clone(),
                };
                Some(parse_quote! {
                    match #recv { Some(vx_v) => { { let #inner = vx_v; #body }; Some(vx_v) } None => None }
                })
            }
            _ => fail("config", format!("{}: R15 unknown desugar {} {}", self.name, name, kind)),
        }
    }
}

impl<'a> VisitMut for Rewriter<'a> {
    fn visit_expr_mut(&mut self, e: &mut Expr) {
        // pre-order: rewrite this node, then descend into the result
        let replaced = match e {
            Expr::MethodCall(m) => {
                let name = m.method.to_string();
                match name.as_str() {
                    "map" | "inspect" if self.desugar.contains_key(&name) => self.r15_desugar(m),
                    "for_each" => self.r1_for_each(m),
                    "try_for_each" => self.r1_try_for_each(m).map(|b| parse_quote! { (#b) }),
                    "fold" => self.r2_fold(m).map(|b| parse_quote! { (#b) }),
                    "try_fold" => self.r2_zip_try_fold(m).map(|b| parse_quote! { (#b) }),
                    "collect" => self.r3_collect(m).map(|b| parse_quote! { (#b) }),
                    _ => None,
                }
            }
            Expr::Await(a) if matches!(&*a.base, Expr::Call(c) if matches!(&*c.func, Expr::Path(p) if p.path.get_ident().map(|i| self.async_fns.contains(&i.to_string())).unwrap_or(false))) => {
                // `f(args).await` for a crate-local async fn: its body runs here (sequential call, world threaded)
                if let Expr::Call(c) = &*a.base {
                    let f = &c.func;
                    let args = c.args.iter();
                    self.fired.push("R6-await-local-async-fn".into());
                    Some(parse_quote! { #f(#(#args),*, Tracked(w)) })
                } else {
                    None
                }
            }
            Expr::Await(a) if self.fold_step_fn.is_some() && matches!(&*a.base, Expr::MethodCall(m) if m.method == "fold" && m.args.len() == 2 && matches!(&m.args[1], Expr::Closure(c) if c.inputs.len() == 2)) => {
                // R28: `STREAM.fold(INIT, move |acc, item| async move { STEP }).await` where STEP is the closure the unit names as a
                // function of its own (verified in its own unit against the contract used here): futures' `fold` takes the items one
                // at a time, awaits the step's future before asking for the next item, and returns the last accumulator
                let Expr::MethodCall(m) = &*a.base else { unreachable!() };
                let n = self.fresh();
                let it = format_ident!("vx_itR{}", n);
                let acc = format_ident!("vx_accR{}", n);
                let item_id = format_ident!("vx_itemR{}", n);
                let recv = &m.receiver;
                let init = &m.args[0];
                let step = format_ident!("{}", self.fold_step_fn.clone().unwrap());
                let extra: Vec<Ident> = self.fold_step_args.iter().map(|x| format_ident!("{}", x)).collect();
                self.fired.push("R28-stream-fold-with-contracted-step".into());
                Some(parse_quote! {{
                    let mut #acc = #init;
                    let mut #it = #recv;
                    while let Some(#item_id) = #it.next(Tracked(w)) {
                        #acc = #step(#acc, #item_id, #(#extra,)* Tracked(w));
                    }
                    #acc
                }})
            }
            Expr::Await(a) if matches!(&*a.base, Expr::MethodCall(m) if self.await_methods.contains(&m.method.to_string())) => {
                // R6'': `recv.m(args).await` for a crate-local async METHOD named by the unit: a sequential call of the method
                let inner = &a.base;
                self.fired.push("R6-await-local-async-method".into());
                Some(parse_quote! { #inner })
            }
            Expr::Await(a) if r27_drain_target(&a.base).is_some() => {
                // R27: `stream::poll_fn(move |cx| RX.poll_recv(cx)).collect::<Vec<T>>().await` - polling the receiver until it
                // reports `None` and keeping every item - becomes `vx_drain_until_closed(RX)` (assumed: everything buffered, in order)
                let rx = r27_drain_target(&a.base).unwrap();
                self.fired.push("R27-drain-receiver-until-closed".into());
                Some(parse_quote! { vx_drain_until_closed(#rx) })
            }
            Expr::Await(a) => {
                let inner = &a.base;
                self.fired.push("R6-await".into());
                if self.world {
                    Some(parse_quote! { vx_await(#inner, Tracked(w)) })
                } else {
                    Some(parse_quote! { vx_await(#inner) })
                }
            }
            Expr::Call(c) if self.recv_stream_fn.is_some() && r29_recv_stream_target(c).is_some() => {
                // R29: `stream::poll_fn(move |cx| RX.poll_recv(cx))` - the stream of the values received on RX - becomes the
                // prelude's receiver-stream constructor named by the unit
                let rx = r29_recv_stream_target(c).unwrap();
                let f = format_ident!("{}", self.recv_stream_fn.clone().unwrap());
                self.fired.push("R29-receiver-as-stream".into());
                Some(parse_quote! { #f(#rx) })
            }
            Expr::Macro(m) => {
                let mname = m.mac.path.segments.last().map(|s| s.ident.to_string()).unwrap_or_default();
                match mname.as_str() {
                    "vec" => None,
                    "join" => {
                        let args = m
                            .mac
                            .parse_body_with(punctuated::Punctuated::<Expr, Token![,]>::parse_terminated)
                            .unwrap_or_else(|_| fail("rule-refused", format!("{}: join! args", self.name)));
                        self.fired.push("R10-join".into());
                        let args = args.iter();
                        if self.world {
                            Some(parse_quote! { vx_join(#(#args),*, Tracked(w)) })
                        } else {
                            Some(parse_quote! { vx_join(#(#args),*) })
                        }
                    }
                    "matches" => {
                        // R25: `matches!(e, PAT [if G])` is std's `match e { PAT [if G] => true, _ => false }`
                        let parsed = m.mac.parse_body_with(|input: syn::parse::ParseStream| {
                            let e: Expr = input.parse()?;
                            let _: Token![,] = input.parse()?;
                            let pat = Pat::parse_multi_with_leading_vert(input)?;
                            let guard: Option<Expr> = if input.peek(Token![if]) { let _: Token![if] = input.parse()?; Some(input.parse()?) } else { None };
                            let _: Option<Token![,]> = input.parse()?;
                            Ok((e, pat, guard))
                        });
                        match parsed {
                            Ok((e2, pat, guard)) => {
                                self.fired.push("R25-matches".into());
                                match guard {
                                    Some(g) => Some(parse_quote! { (match #e2 { #pat if #g => true, _ => false }) }),
                                    None => Some(parse_quote! { (match #e2 { #pat => true, _ => false }) }),
                                }
                            }
                            Err(_) => fail("rule-refused", format!("{}: matches! arguments", self.name)),
                        }
                    }
                    other => fail("unsupported", format!("{}: macro `{}!` in extracted item", self.name, other)),
                }
            }
            _ => None,
        };
        if let Some(r) = replaced {
            *e = r;
        }
        // R4': `X[a..].iter()` ⇒ `vx_iter_from(&X, a)`;  `X[a..].fill(v)` ⇒ `vx_fill_from(&mut X, a, v)`
        let mut r4p: Option<Expr> = None;
        if let Expr::MethodCall(m) = e {
            if let Expr::Index(ix) = &*m.receiver {
                if let Expr::Range(r) = &*ix.index {
                    if let (Some(a), None, RangeLimits::HalfOpen(_)) = (&r.start, &r.end, &r.limits) {
                        let x = &ix.expr;
                        if m.method == "iter" && m.args.is_empty() {
                            r4p = Some(parse_quote! { vx_iter_from(&#x, #a) });
                        } else if m.method == "fill" && m.args.len() == 1 {
                            let v = &m.args[0];
                            r4p = Some(parse_quote! { vx_fill_from(&mut #x, #a, #v) });
                        }
                    }
                }
            }
        }
        if let Some(r) = r4p {
            self.fired.push("R4'-tail-slice".into());
            *e = r;
        }
        // method renames (R4) and effect threading (R6)
        if let Expr::MethodCall(m) = e {
            let name = m.method.to_string();
            if let Expr::Path(p) = &*m.receiver {
                if let Some(ri) = p.path.get_ident() {
                    if let Some(n) = self.rename_methods_on.get(&ri.to_string()).and_then(|mm| mm.get(&name)) {
                        m.method = id(n);
                        self.fired.push(format!("R4-rename-{}-on-{}", name, ri));
                    }
                }
            }
            let name = m.method.to_string();
            if let Some(n) = self.rename_methods.get(&name) {
                m.method = id(n);
                self.fired.push(format!("R4-rename-{}", name));
            }
            if self.world && self.effects.contains(&m.method.to_string()) {
                m.args.push(parse_quote! { Tracked(w) });
                self.fired.push(format!("R6-effect-{}", m.method));
            }
        }
        if let Expr::Call(c) = e {
            if let Expr::Path(p) = &mut *c.func {
                if let Some(last) = p.path.segments.last_mut() {
                    if let (Some(t), true) = (self.turbofish.get(&last.ident.to_string()), matches!(last.arguments, PathArguments::None)) {
                        let ty: Type = syn::parse_str(t).unwrap();
                        last.arguments = PathArguments::AngleBracketed(parse_quote! { ::<#ty> });
                        self.fired.push(format!("R16-type-hint-{}", last.ident));
                    }
                }
            }
            if let Expr::Path(p) = &*c.func {
                if let Some(last) = p.path.segments.last() {
                    let n = last.ident.to_string();
                    if self.world && self.effects.contains(&n) {
                        c.args.push(parse_quote! { Tracked(w) });
                        self.fired.push(format!("R6-effect-{}", n));
                    }
                    if p.path.segments.len() == 1 && self.user_calls.contains(&n) {
                        let f = &c.func;
                        let args = c.args.iter();
                        self.fired.push(format!("R6-user-call-{}", n));
                        if self.user_call_sync {
                            // a synchronous user callback (sequential iteration API): the call itself is the visit
                            let nm = if c.args.len() == 1 { id("vx_user_visit1") } else { id("vx_user_visit") };
                            let f2 = &c.func;
                            let args2 = c.args.iter();
                            let tf: TokenStream = match (&self.user_call_ret, c.args.len()) {
                                (Some(r), 1) => { let t: Type = syn::parse_str(r).unwrap(); quote! { ::<_, _, #t> } }
                                (Some(r), _) => { let t: Type = syn::parse_str(r).unwrap(); quote! { ::<_, _, _, #t> } }
                                _ => quote! {},
                            };
                            let new: Expr = parse_quote! { #nm #tf(&#f2, #(#args2),*, Tracked(w)) };
                            self.fired.push(format!("R6-user-visit-{}", n));
                            *e = new;
                            visit_mut::visit_expr_mut(self, e);
                            return;
                        }
                        let nm = match (c.args.len() == 1, self.user_call_try) {
                            (true, false) => id("vx_user_call1"),
                            (false, false) => id("vx_user_call"),
                            (true, true) => id("vx_user_try_call1"),
                            (false, true) => id("vx_user_try_call"),
                        };
                        let tf: TokenStream = match (&self.user_call_ret, c.args.len()) {
                            (Some(r), n) if self.user_call_try => {
                                // "T, E"
                                let tys: Vec<Type> = r.split(',').map(|x| syn::parse_str(x.trim()).unwrap()).collect();
                                if n == 1 { quote! { ::<_, _, #(#tys),*> } } else { quote! { ::<_, _, _, #(#tys),*> } }
                            }
                            (Some(r), 1) => { let t: Type = syn::parse_str(r).unwrap(); quote! { ::<_, _, #t> } }
                            (Some(r), _) => { let t: Type = syn::parse_str(r).unwrap(); quote! { ::<_, _, _, #t> } }
                            _ => quote! {},
                        };
                        let new: Expr = if self.world {
                            parse_quote! { #nm #tf(&#f, #(#args),*, Tracked(w)) }
                        } else {
                            parse_quote! { #nm(&#f, #(#args),*) }
                        };
                        *e = new;
                    }
                }
            }
        }
        visit_mut::visit_expr_mut(self, e);
    }

    fn visit_block_mut(&mut self, b: &mut Block) {
        // R18: `let &mut S { f: _, ref a, ref mut b, .. } = x;` ⇒ `let a = &x.a; let b = &mut x.b;`
        let old = std::mem::take(&mut b.stmts);
        for st in old.into_iter() {
            let mut replaced = false;
            // R26: `debug_assert!(c)` / `debug_assert_eq!(a, b)` / `debug_assert_ne!(a, b)` become a proof obligation on the
            // evaluated condition (`if vx_debug_assertions() { let vx_da = c; proof { assert(vx_da); } }`): a debug build panics
            // exactly when it is false, a release build does not evaluate it at all
            if let Stmt::Macro(sm) = &st {
                let mname = sm.mac.path.segments.last().map(|x| x.ident.to_string()).unwrap_or_default();
                if mname == "debug_assert" || mname == "debug_assert_eq" || mname == "debug_assert_ne" {
                    let args = sm.mac.parse_body_with(punctuated::Punctuated::<Expr, Token![,]>::parse_terminated)
                        .unwrap_or_else(|_| fail("rule-refused", format!("{}: {}! arguments", self.name, mname)));
                    let mut it = args.into_iter();
                    let cond: Expr = match mname.as_str() {
                        "debug_assert" => it.next().unwrap_or_else(|| fail("rule-refused", format!("{}: empty debug_assert!", self.name))),
                        "debug_assert_eq" => { let a = it.next().unwrap(); let b2 = it.next().unwrap(); parse_quote! { (#a) == (#b2) } }
                        _ => { let a = it.next().unwrap(); let b2 = it.next().unwrap(); parse_quote! { (#a) != (#b2) } }
                    };
                    let nm = format_ident!("vx_da{}", self.counter);
                    self.counter += 1;
                    // the condition is evaluated only in builds with debug assertions: `vx_debug_assertions()` is an
                    // unconstrained bool, so the function is verified for both profiles (a condition with an effect the
                    // postcondition needs - `debug_assert!(g.update_edge(..).is_ok())` - fails in the profile without it)
                    b.stmts.push(parse_quote! { if vx_debug_assertions() { let #nm: bool = #cond; vx_debug_assert!(#nm); } });
                    self.fired.push("R26-debug-assert-as-obligation".into());
                    replaced = true;
                }
            }
            if let Stmt::Local(l) = &st {
                if let (Pat::Reference(r), Some(init)) = (&l.pat, &l.init) {
                    if let (Pat::Struct(ps), Expr::Path(_)) = (&*r.pat, &*init.expr) {
                        let x = &init.expr;
                        let mut outs: Vec<Stmt> = vec![];
                        let mut ok = true;
                        for f in ps.fields.iter() {
                            let member = &f.member;
                            match &*f.pat {
                                Pat::Wild(_) => {}
                                Pat::Ident(pi) if pi.by_ref.is_some() && pi.subpat.is_none() => {
                                    let nm = &pi.ident;
                                    if pi.mutability.is_some() {
                                        outs.push(parse_quote! { let #nm = &mut #x.#member; });
                                    } else {
                                        outs.push(parse_quote! { let #nm = &#x.#member; });
                                    }
                                }
                                _ => ok = false,
                            }
                        }
                        if ok {
                            self.fired.push("R18-ref-struct-pattern".into());
                            b.stmts.extend(outs);
                            replaced = true;
                        }
                    }
                }
            }
            // R20: `let (A(x) | B(x)) = E;` ⇒ `let x = match E { A(x) => x, B(x) => x };`
            if !replaced {
                if let Stmt::Local(l) = &st {
                    let mut p = &l.pat;
                    if let Pat::Paren(pp) = p { p = &pp.pat; }
                    if let (Pat::Or(or), Some(init)) = (p, &l.init) {
                        struct Names(Vec<Ident>);
                        impl<'ast> Visit<'ast> for Names {
                            fn visit_pat_ident(&mut self, p: &'ast PatIdent) { self.0.push(p.ident.clone()); }
                        }
                        let mut all: Vec<Vec<Ident>> = vec![];
                        for c in or.cases.iter() { let mut n = Names(vec![]); n.visit_pat(c); all.push(n.0); }
                        if all.iter().all(|v| v.len() == 1 && v[0] == all[0][0]) {
                            let x = &all[0][0];
                            let cases = or.cases.iter();
                            let ex = &init.expr;
                            b.stmts.push(parse_quote! { let #x = match #ex { #(#cases => #x),* }; });
                            self.fired.push("R20-or-pattern-let".into());
                            replaced = true;
                        }
                    }
                }
            }
            if !replaced {
                b.stmts.push(st);
            }
        }
        visit_mut::visit_block_mut(self, b);
    }

    fn visit_stmt_mut(&mut self, st: &mut Stmt) {
        // R6-drop: `x.take();` discards (drops) the taken Sender: the drop is made explicit
        if self.drop_takes && self.world {
            if let Stmt::Expr(Expr::MethodCall(m), Some(_)) = st {
                if m.method == "take" && m.args.is_empty() {
                    let e = Expr::MethodCall(m.clone());
                    let df = id(&self.drop_fn);
                    *st = parse_quote! { #df(#e, Tracked(w)); };
                    self.fired.push("R6-drop-taken-sender".into());
                }
            }
        }
        // R30: `let (X_tx, X_rx) = mpsc::channel(cap)` of the two protocol channels: which of the two fresh channels plays which
        // role is fixed by how the code goes on to use the pair, not by the order of the two statements - the role is read off the
        // binder (`..ready..` / `..done..`); all later uses are checked against that role by the contracts, so any consistent
        // labelling of two fresh channels is sound. Other binders (the result channel) keep the generic constructor.
        if self.world && self.effects.contains(&"channel".to_string()) {
            if let Stmt::Local(l) = st {
                let role = match &l.pat {
                    Pat::Tuple(t) => match t.elems.first() {
                        Some(Pat::Ident(pi)) => { let n = pi.ident.to_string(); if n.contains("ready") { Some("channel_ready") } else if n.contains("done") { Some("channel_done") } else { None } }
                        _ => None,
                    },
                    _ => None,
                };
                if let (Some(role), Some(init)) = (role, l.init.as_mut()) {
                    if let Expr::Call(c) = &mut *init.expr {
                        if let Expr::Path(p) = &mut *c.func {
                            if let Some(last) = p.path.segments.last_mut() {
                                if last.ident == "channel" {
                                    last.ident = id(role);
                                    c.args.push(parse_quote! { Tracked(w) });
                                    self.fired.push(format!("R30-{}", role));
                                }
                            }
                        }
                    }
                }
            }
        }
        visit_mut::visit_stmt_mut(self, st);
    }

    fn visit_pat_mut(&mut self, p: &mut Pat) {
        // R14: the irrefutable pattern `&()` becomes `_` (Verus has no reference patterns)
        if let Pat::Reference(r) = p {
            if let Pat::Tuple(t) = &*r.pat {
                if t.elems.is_empty() {
                    *p = parse_quote! { _ };
                    self.fired.push("R14-unit-ref-pattern".into());
                    return;
                }
            }
        }
        visit_mut::visit_pat_mut(self, p);
    }

    fn visit_expr_closure_mut(&mut self, c: &mut ExprClosure) {
        // R12: `_` closure parameters are named
        for (i, p) in c.inputs.iter_mut().enumerate() {
            let is_wild = match p {
                Pat::Wild(_) => true,
                Pat::Type(t) => matches!(&*t.pat, Pat::Wild(_)),
                _ => false,
            };
            if is_wild {
                let nm = format_ident!("vx_unused{}", i);
                match p {
                    Pat::Wild(_) => *p = parse_quote! { #nm },
                    Pat::Type(t) => *t.pat = parse_quote! { #nm },
                    _ => {}
                }
                self.fired.push("R12-wild-closure-param".into());
            }
        }
        // R12': a tuple pattern as closure parameter (not supported by Verus) becomes a named parameter that the
        // body destructures first: `|(a, b)| B` => `|vx_p0| { let (a, b) = vx_p0; B }`
        let mut lets: Vec<Stmt> = vec![];
        for (i, p) in c.inputs.iter_mut().enumerate() {
            let nm = format_ident!("vx_p{}", i);
            match p {
                Pat::Tuple(_) => {
                    let pat = p.clone();
                    lets.push(parse_quote! { let #pat = #nm; });
                    *p = parse_quote! { #nm };
                }
                Pat::Type(t) if matches!(&*t.pat, Pat::Tuple(_)) => {
                    let pat = (*t.pat).clone();
                    lets.push(parse_quote! { let #pat = #nm; });
                    *t.pat = parse_quote! { #nm };
                }
                _ => {}
            }
        }
        if !lets.is_empty() {
            let body = (*c.body).clone();
            let blk: Block = match body {
                Expr::Block(b) if b.label.is_none() && b.attrs.is_empty() => {
                    let mut bb = b.block;
                    for (k, l) in lets.into_iter().enumerate() { bb.stmts.insert(k, l); }
                    bb
                }
                e => parse_quote! { { #(#lets)* #e } },
            };
            *c.body = Expr::Block(ExprBlock { attrs: vec![], label: None, block: blk });
            self.fired.push("R12'-tuple-closure-param".into());
        }
        visit_mut::visit_expr_closure_mut(self, c);
    }
}

/// R27 shape test: `<path ending in poll_fn>(move |c| RX.poll_recv(c)).collect::<Vec<_>>()` with RX a plain identifier
fn r27_drain_target(e: &Expr) -> Option<Ident> {
    let Expr::MethodCall(mc) = e else { return None };
    if mc.method != "collect" || !mc.args.is_empty() { return None; }
    let tf = mc.turbofish.as_ref()?.to_token_stream().to_string().replace(' ', "");
    if !tf.starts_with("::<Vec<") { return None; }
    let Expr::Call(c) = &*mc.receiver else { return None };
    let Expr::Path(fp) = &*c.func else { return None };
    if fp.path.segments.last().map(|s| s.ident != "poll_fn").unwrap_or(true) || c.args.len() != 1 { return None; }
    let Expr::Closure(cl) = &c.args[0] else { return None };
    if cl.inputs.len() != 1 { return None; }
    let Pat::Ident(cx) = &cl.inputs[0] else { return None };
    let Expr::MethodCall(inner) = &*cl.body else { return None };
    if inner.method != "poll_recv" || inner.args.len() != 1 { return None; }
    let Expr::Path(arg) = &inner.args[0] else { return None };
    if arg.path.get_ident() != Some(&cx.ident) { return None; }
    let Expr::Path(rx) = &*inner.receiver else { return None };
    rx.path.get_ident().cloned()
}

/// R29 shape test: `<path ending in poll_fn>(move |c| RX.poll_recv(c))` with RX a plain identifier
fn r29_recv_stream_target(c: &ExprCall) -> Option<Ident> {
    let Expr::Path(fp) = &*c.func else { return None };
    if fp.path.segments.last().map(|s| s.ident != "poll_fn").unwrap_or(true) || c.args.len() != 1 { return None; }
    let Expr::Closure(cl) = &c.args[0] else { return None };
    if cl.inputs.len() != 1 { return None; }
    let Pat::Ident(cx) = &cl.inputs[0] else { return None };
    let Expr::MethodCall(inner) = &*cl.body else { return None };
    if inner.method != "poll_recv" || inner.args.len() != 1 { return None; }
    let Expr::Path(arg) = &inner.args[0] else { return None };
    if arg.path.get_ident() != Some(&cx.ident) { return None; }
    let Expr::Path(rx) = &*inner.receiver else { return None };
    rx.path.get_ident().cloned()
}

pub fn apply_all(block: &mut Block, item: &Value, fired: &mut Vec<String>, name: &str) {
    let rename_methods: HashMap<String, String> = item
        .get("rename_methods")
        .and_then(|x| x.as_object())
        .map(|o| o.iter().filter_map(|(k, v)| v.as_str().map(|v| (k.clone(), v.to_string()))).collect())
        .unwrap_or_default();
    let list = |k: &str| -> Vec<String> {
        item.get(k)
            .and_then(|x| x.as_array())
            .map(|a| a.iter().filter_map(|x| x.as_str().map(String::from)).collect())
            .unwrap_or_default()
    };
    let mut rw = Rewriter {
        fired,
        name,
        counter: 0,
        rename_methods,
        effects: list("effects"),
        user_calls: list("user_calls"),
        world: item.get("world").and_then(|x| x.as_bool()).unwrap_or(false),
        collect_type: item.get("collect_type").and_then(|x| x.as_str()).map(String::from),
        drop_takes: item.get("drop_takes").and_then(|x| x.as_bool()).unwrap_or(false),
        drop_fn: item.get("drop_fn").and_then(|x| x.as_str()).unwrap_or("vx_drop_sender_opt").to_string(),
        async_fns: list("async_fns"),
        await_methods: list("await_methods"),
        fold_step_fn: item.get("fold_step_fn").and_then(|x| x.as_str()).map(String::from),
        fold_step_args: list("fold_step_args"),
        recv_stream_fn: item.get("recv_stream_fn").and_then(|x| x.as_str()).map(String::from),
        user_call_ret: item.get("user_call_ret").and_then(|x| x.as_str()).map(String::from),
        user_call_try: item.get("user_call_try").and_then(|x| x.as_bool()).unwrap_or(false),
        user_call_sync: item.get("user_call_sync").and_then(|x| x.as_bool()).unwrap_or(false),
        turbofish: item
            .get("turbofish")
            .and_then(|x| x.as_object())
            .map(|o| o.iter().filter_map(|(k, v)| v.as_str().map(|v| (k.clone(), v.to_string()))).collect())
            .unwrap_or_default(),
        rename_methods_on: item
            .get("rename_methods_on")
            .and_then(|x| x.as_object())
            .map(|o| {
                o.iter()
                    .map(|(k, v)| {
                        (
                            k.clone(),
                            v.as_object()
                                .map(|m| m.iter().filter_map(|(a, b)| b.as_str().map(|b| (a.clone(), b.to_string()))).collect())
                                .unwrap_or_default(),
                        )
                    })
                    .collect()
            })
            .unwrap_or_default(),
        desugar: item
            .get("desugar")
            .and_then(|x| x.as_object())
            .map(|o| {
                o.iter()
                    .map(|(k, v)| {
                        (
                            k.clone(),
                            v.as_array().map(|a| a.iter().filter_map(|x| x.as_str().map(String::from)).collect()).unwrap_or_default(),
                        )
                    })
                    .collect()
            })
            .unwrap_or_default(),
        desugar_seen: HashMap::new(),
    };
    rw.visit_block_mut(block);
    // R22: `use` declarations inside a function body are dropped (trait imports for method resolution: the
    // assembled file resolves the same method names against the prelude)
    struct DropUse(usize);
    impl VisitMut for DropUse {
        fn visit_block_mut(&mut self, b: &mut Block) {
            let n = b.stmts.len();
            b.stmts.retain(|s| !matches!(s, Stmt::Item(Item::Use(_))));
            self.0 += n - b.stmts.len();
            visit_mut::visit_block_mut(self, b);
        }
    }
    let mut du = DropUse(0);
    du.visit_block_mut(block);
    if du.0 > 0 {
        rw.fired.push("R22-local-use-dropped".into());
    }
}

// ------------------------------------------------------------------------------------------
// markers

struct Marker {
    f: String,
    k: usize,
    nk: usize,
    ck: usize,
    renames: HashMap<String, String>,
}

fn mac_stmt(name: &str, f: &str, k: Option<usize>) -> Stmt {
    mac_stmt_s(name, f, k.map(|k| format!("c{}", k)))
}

fn mac_stmt_s(name: &str, f: &str, k: Option<String>) -> Stmt {
    let n = id(name);
    let f = id(f);
    match k {
        Some(k) => {
            let lit = id(&k);
            parse_quote! { #n!(#f, #lit); }
        }
        None => parse_quote! { #n!(#f); },
    }
}

impl Marker {
    /// loop id: `it<k>` for loops produced by R1/R2/R3 (k-th iterator loop), `n<k>` for native loops
    fn loop_id(&mut self, cond: Option<&Expr>) -> String {
        if let Some(c) = cond {
            if let Expr::Let(l) = c {
                if let Expr::MethodCall(m) = &*l.expr {
                    if let Expr::Path(p) = &*m.receiver {
                        if let Some(i) = p.path.get_ident() {
                            if i.to_string().starts_with("vx_itR") {
                                let k = self.k;
                                self.k += 1;
                                self.note_iter(c, k);
                                return format!("it{}", k);
                            }
                        }
                    }
                }
            }
        }
        let k = self.nk;
        self.nk += 1;
        format!("n{}", k)
    }
    fn note_iter(&mut self, cond: &Expr, k: usize) {
        // `while let Some(..) = vx_itR<r>.next()`
        if let Expr::Let(l) = cond {
            if let Expr::MethodCall(m) = &*l.expr {
                if let Expr::Path(p) = &*m.receiver {
                    if let Some(i) = p.path.get_ident() {
                        let s = i.to_string();
                        if let Some(r) = s.strip_prefix("vx_itR") {
                            for pre in ["vx_it", "vx_itb", "vx_c", "vx_acc", "vx_res"] {
                                self.renames.insert(format!("{}R{}", pre, r), format!("{}{}", pre, k));
                            }
                        }
                    }
                }
            }
        }
    }
    fn mark_body(&mut self, body: &mut Block, k: &str) {
        unit_tail_to_stmt(&mut body.stmts);
        body.stmts.insert(0, mac_stmt_s("vx_loop_head", &self.f, Some(k.to_string())));
        body.stmts.push(mac_stmt_s("vx_loop_end", &self.f, Some(k.to_string())));
    }
}

impl VisitMut for Marker {
    fn visit_block_mut(&mut self, b: &mut Block) {
        // number loops that are statements of this block (pre-order), add after-loop markers
        let old = std::mem::take(&mut b.stmts);
        for mut st in old.into_iter() {
            let mut after = None;
            if let Stmt::Expr(e, semi) = &mut st {
                let is_loop = matches!(e, Expr::While(_) | Expr::Loop(_) | Expr::ForLoop(_));
                if is_loop {
                    let k: String = match e {
                        Expr::While(w) => {
                            let c = (*w.cond).clone();
                            self.loop_id(Some(&c))
                        }
                        _ => self.loop_id(None),
                    };
                    match e {
                        Expr::While(w) => {
                            self.mark_body(&mut w.body, &k);
                            // descend into the body (nested loops get later ordinals)
                            self.visit_expr_mut(&mut w.cond);
                            self.visit_block_mut_inner(&mut w.body);
                        }
                        Expr::Loop(l) => {
                            self.mark_body(&mut l.body, &k);
                            self.visit_block_mut_inner(&mut l.body);
                        }
                        Expr::ForLoop(f) => {
                            self.mark_body(&mut f.body, &k);
                            self.visit_expr_mut(&mut f.expr);
                            self.visit_block_mut_inner(&mut f.body);
                        }
                        _ => {}
                    }
                    if semi.is_none() {
                        *semi = Some(Default::default());
                    }
                    after = Some(mac_stmt_s("vx_after_loop", &self.f, Some(k.clone())));
                    b.stmts.push(st);
                    b.stmts.push(after.take().unwrap());
                    continue;
                }
            }
            self.visit_stmt_mut(&mut st);
            b.stmts.push(st);
            let _ = &after;
        }
    }
    fn visit_expr_mut(&mut self, e: &mut Expr) {
        // loops in expression position (not a block statement) are not supported by the marker scheme
        if matches!(e, Expr::While(_) | Expr::Loop(_) | Expr::ForLoop(_)) {
            fail("unsupported", "loop in expression position".into());
        }
        visit_mut::visit_expr_mut(self, e);
    }
    fn visit_expr_closure_mut(&mut self, c: &mut ExprClosure) {
        // R8: closure bodies become blocks that start with a marker, so that an overlay can replace the header
        let k = self.ck;
        self.ck += 1;
        let m = mac_stmt("vx_closure_head", &self.f, Some(k));
        let body = (*c.body).clone();
        let mut blk: Block = match body {
            Expr::Block(b) if b.label.is_none() && b.attrs.is_empty() => b.block,
            e => parse_quote! { { #e } },
        };
        blk.stmts.insert(0, m);
        *c.body = Expr::Block(ExprBlock { attrs: vec![], label: None, block: blk });
        visit_mut::visit_expr_closure_mut(self, c);
    }
}

impl Marker {
    fn visit_block_mut_inner(&mut self, b: &mut Block) {
        // the head/end markers are already in place: process the statements in between
        self.visit_block_mut(b);
    }
}

struct Renamer<'a>(&'a HashMap<String, String>);
impl<'a> VisitMut for Renamer<'a> {
    fn visit_ident_mut(&mut self, i: &mut Ident) {
        let s = i.to_string();
        if let Some(n) = self.0.get(&s) {
            *i = Ident::new(n, i.span());
        } else if let Some(raw) = s.strip_prefix("r#") {
            // R13: raw identifiers (`r#fn`) are renamed; Verus leaks them into SMT-LIB unescaped
            *i = Ident::new(&format!("vx_raw_{}", raw), i.span());
        }
    }
}

pub fn rename_self(b: &mut Block, to: &str) {
    let mut m = HashMap::new();
    m.insert("self".to_string(), to.to_string());
    Renamer(&m).visit_block_mut(b);
}

pub fn rename_raw_file(f: &mut File) {
    let m = HashMap::new();
    Renamer(&m).visit_file_mut(f);
}

pub fn mark(block: &mut Block, fn_name: &str) {
    mark_ret(block, fn_name, false)
}

pub fn mark_ret(block: &mut Block, fn_name: &str, unit_ret: bool) {
    if unit_ret {
        // a unit function's block-like tail expression (`if .. {}`) becomes a statement so that the end marker is last
        if let Some(Stmt::Expr(e, semi @ None)) = block.stmts.last_mut() {
            if matches!(e, Expr::If(_) | Expr::Match(_) | Expr::Block(_) | Expr::While(_) | Expr::Loop(_) | Expr::ForLoop(_)) {
                *semi = Some(Default::default());
            }
        }
    }
    let mut m = Marker { f: fn_name.to_string(), k: 0, nk: 0, ck: 0, renames: HashMap::new() };
    m.visit_block_mut(block);
    Renamer(&m.renames).visit_block_mut(block);
    // fn head / end markers
    let has_tail = matches!(block.stmts.last(), Some(Stmt::Expr(_, None)));
    block.stmts.insert(0, mac_stmt("vx_fn_head", fn_name, None));
    if has_tail {
        let n = block.stmts.len();
        block.stmts.insert(n - 1, mac_stmt("vx_fn_end", fn_name, None));
    } else {
        block.stmts.push(mac_stmt("vx_fn_end", fn_name, None));
    }
}

// ------------------------------------------------------------------------------------------
// R5 closure hoisting

struct Binds<'a> {
    names: &'a [String],
    hit: Option<String>,
}
impl<'a, 'ast> Visit<'ast> for Binds<'a> {
    fn visit_pat_ident(&mut self, p: &'ast PatIdent) {
        let s = p.ident.to_string();
        if self.names.contains(&s) {
            self.hit = Some(s);
        }
        syn::visit::visit_pat_ident(self, p);
    }
}

struct Deref<'a> {
    names: &'a [String],
    n: usize,
}
impl<'a> VisitMut for Deref<'a> {
    fn visit_expr_mut(&mut self, e: &mut Expr) {
        if let Expr::Path(p) = e {
            if let Some(i) = p.path.get_ident() {
                if self.names.contains(&i.to_string()) {
                    let i = i.clone();
                    *e = parse_quote! { (*#i) };
                    self.n += 1;
                    return;
                }
            }
        }
        visit_mut::visit_expr_mut(self, e);
    }
}

struct SelfRepl<'a>(&'a Type);
impl<'a> VisitMut for SelfRepl<'a> {
    fn visit_path_mut(&mut self, p: &mut Path) {
        if p.segments.first().map(|s| s.ident == "Self").unwrap_or(false) && p.segments.len() > 1 {
            let ty = self.0;
            let rest: Vec<_> = p.segments.iter().skip(1).cloned().collect();
            *p = parse_quote! { <#ty>::#(#rest)::* };
            return;
        }
        visit_mut::visit_path_mut(self, p);
    }
}

pub fn hoist_closure(clo: ExprClosure, item: &Value, fired: &mut Vec<String>, name: &str) -> String {
    let as_fn = item.get("as_fn").and_then(|x| x.as_str()).unwrap_or(name).to_string();
    let pairs = |k: &str| -> Vec<(String, String)> {
        item.get(k)
            .and_then(|x| x.as_array())
            .map(|a| {
                a.iter()
                    .filter_map(|p| {
                        let p = p.as_array()?;
                        Some((p.first()?.as_str()?.to_string(), p.get(1)?.as_str()?.to_string()))
                    })
                    .collect()
            })
            .unwrap_or_default()
    };
    let params = pairs("params");
    let cparams = pairs("closure_params");
    let deref: Vec<String> = item
        .get("deref")
        .and_then(|x| x.as_array())
        .map(|a| a.iter().filter_map(|x| x.as_str().map(String::from)).collect())
        .unwrap_or_default();
    let generics = item.get("generics").and_then(|x| x.as_str()).unwrap_or("").to_string();
    let where_ = item.get("where").and_then(|x| x.as_str()).unwrap_or("").to_string();
    // body: `async move { B }` ⇒ B
    let mut body: Block = match *clo.body {
        Expr::Async(a) => {
            fired.push("R5-async-block".into());
            a.block
        }
        Expr::Block(b) if b.label.is_none() => b.block,
        e => parse_quote! { { #e } },
    };
    if cparams.len() != clo.inputs.len() && !cparams.is_empty() {
        fail(
            "anchor-lost",
            format!("{}: closure has {} parameters, unit declares {}", name, clo.inputs.len(), cparams.len()),
        );
    }
    // closure's own parameters: pattern from /repo, type from the unit
    let mut sig_params: Vec<TokenStream> = vec![];
    let mut prologue: Vec<Stmt> = vec![];
    for (i, p) in clo.inputs.iter().enumerate() {
        let p = strip_pat_type(p);
        let ty: Type = match cparams.get(i) {
            Some((_, t)) => syn::parse_str(t).unwrap_or_else(|e| fail("config", format!("{}: type {}: {}", name, t, e))),
            None => fail("config", format!("{}: no type for closure parameter {}", name, i)),
        };
        match &p {
            Pat::Ident(_) => sig_params.push(quote! { #p: #ty }),
            other => {
                let nm = format_ident!("vx_arg{}", i);
                sig_params.push(quote! { #nm: #ty });
                prologue.push(parse_quote! { let #other = #nm; });
            }
        }
    }
    for (n, t) in &params {
        let ty: Type = syn::parse_str(t).unwrap_or_else(|e| fail("config", format!("{}: type {}: {}", name, t, e)));
        let nm = id(n);
        sig_params.push(quote! { #nm: #ty });
    }
    if !deref.is_empty() {
        let mut b = Binds { names: &deref, hit: None };
        b.visit_block(&body);
        if let Some(h) = b.hit {
            fail("rule-refused", format!("{}: R5 deref name `{}` is rebound inside the closure", name, h));
        }
        let mut d = Deref { names: &deref, n: 0 };
        d.visit_block_mut(&mut body);
        fired.push(format!("R5-deref x{}", d.n));
    }
    if let Some(st) = item.get("self_ty").and_then(|x| x.as_str()) {
        let ty: Type = syn::parse_str(st).unwrap();
        SelfRepl(&ty).visit_block_mut(&mut body);
    }
    for (i, st) in prologue.into_iter().enumerate() {
        body.stmts.insert(i, st);
    }
    apply_all(&mut body, item, fired, name);
    let unit_ret = item.get("ret").and_then(|x| x.as_str()).map(|r| r.is_empty()).unwrap_or(true);
    mark_ret(&mut body, &as_fn, unit_ret);
    fired.push("R5-hoist".into());
    let fn_ident = id(&as_fn);
    let gen: TokenStream = if generics.is_empty() { quote! {} } else { syn::parse_str(&generics).unwrap() };
    let wh: TokenStream = if where_.is_empty() { quote! {} } else { syn::parse_str(&where_).unwrap() };
    if item.get("world").and_then(|x| x.as_bool()).unwrap_or(false) {
        sig_params.push(quote! { Tracked(w): Tracked<&mut World> });
    }
    let ret: TokenStream = match item.get("ret").and_then(|x| x.as_str()) {
        Some(r) if !r.is_empty() => {
            let ty: Type = syn::parse_str(r).unwrap();
            quote! { -> vx_ret!(#ty) }
        }
        _ => quote! {},
    };
    quote! { fn #fn_ident #gen ( #(#sig_params),* ) #ret #wh #body }.to_string()
}
