//! vx-extract: mechanical extraction of real functions from /repo into the
//! Verus-acceptable subset. Rules R0..R12 of DESIGN.md §3.
//!
//! usage: vx-extract <request.json>   → JSON on stdout
//!
//! request: { "repo": "/repo", "features": ["async"], "items": [ITEM...] }
//! ITEM: {
//!   "name": str,                      // output key
//!   "file": "src/x.rs",
//!   "kind": "fn" | "impl_fn" | "struct" | "enum" | "impl" | "closure",
//!   "ident": str,                     // fn / struct / enum name
//!   "impl_self": str?,                // for impl_fn / impl: self type ident
//!   "impl_trait": str?,               // for impl: trait (token string, spaces removed) or "" for inherent
//!   // closure selection (kind == closure): inside fn `ident` (and impl_self), the closure that
//!   // is argument `arg` of the `nth` call/method-call named `call`
//!   "call": str?, "nth": int?, "arg": int?,
//!   "as_fn": str?,                    // name of the hoisted fn
//!   "params": [[name, type]...]?,     // captured variables → parameters
//!   "closure_params": [[name, type]...]?, // types for the closure's own parameters (by position)
//!   "ret": str?,                      // return type of hoisted fn
//!   "deref": [name...]?,              // `name` → `(*name)` (refused if shadowed)
//!   "strip_async": bool?,
//!   "rename_fn": str?,                // rename extracted fn
//!   "self_ty": str?                   // replace `Self` in hoisted closures
//! }
//! Exit codes: 0 ok; 3 anchor lost / rule refused (message on stderr as JSON).

use proc_macro2::{Span, TokenStream};
use quote::{quote, ToTokens};
use serde_json::{json, Value};
use std::collections::BTreeSet;
use syn::visit::Visit;
use syn::visit_mut::{self, VisitMut};
use syn::*;

mod cfg;
mod rules;

fn fail(kind: &str, msg: String) -> ! {
    eprintln!("{}", json!({"error": kind, "message": msg}));
    std::process::exit(3);
}

fn norm(ts: impl ToTokens) -> String {
    ts.to_token_stream().to_string().replace(' ', "")
}

fn span_lines(sp: Span) -> (usize, usize) {
    (sp.start().line, sp.end().line)
}

fn full_span(ts: &impl ToTokens) -> (usize, usize) {
    let mut lo = usize::MAX;
    let mut hi = 0;
    for t in ts.to_token_stream() {
        let (a, b) = span_lines(t.span());
        // tokens made by quote!/parse_quote! (cfg filter, kept derives) carry the call-site span (1:0-1:0), not a source position
        if t.span().start().line == 1 && t.span().end().line == 1 && t.span().start().column == 0 && t.span().end().column == 0 {
            continue;
        }
        if a > 0 {
            lo = lo.min(a);
        }
        hi = hi.max(b);
    }
    if lo == usize::MAX {
        lo = 0
    }
    (lo, hi)
}

fn type_ident(ty: &Type) -> Option<String> {
    match ty {
        Type::Path(p) => p.path.segments.last().map(|s| s.ident.to_string()),
        Type::Reference(r) => type_ident(&r.elem),
        _ => None,
    }
}

fn s(v: &Value, k: &str) -> Option<String> {
    v.get(k).and_then(|x| x.as_str()).map(|x| x.to_string())
}

struct ClosureFinder<'a> {
    call: &'a str,
    nth: usize,
    arg: usize,
    seen: usize,
    found: Option<ExprClosure>,
}

impl<'a, 'ast> Visit<'ast> for ClosureFinder<'a> {
    fn visit_expr_method_call(&mut self, e: &'ast ExprMethodCall) {
        // pre-order on the receiver first so that ordinals follow source order
        self.visit_expr(&e.receiver);
        if e.method == self.call {
            if self.seen == self.nth && self.found.is_none() {
                if let Some(Expr::Closure(c)) = e.args.iter().nth(self.arg) {
                    self.found = Some(c.clone());
                }
            }
            self.seen += 1;
        }
        for a in e.args.iter() {
            self.visit_expr(a);
        }
    }
    fn visit_expr_call(&mut self, e: &'ast ExprCall) {
        let name = match &*e.func {
            Expr::Path(p) => p.path.segments.last().map(|s| s.ident.to_string()),
            _ => None,
        };
        if name.as_deref() == Some(self.call) {
            if self.seen == self.nth && self.found.is_none() {
                if let Some(Expr::Closure(c)) = e.args.iter().nth(self.arg) {
                    self.found = Some(c.clone());
                }
            }
            self.seen += 1;
        }
        syn::visit::visit_expr_call(self, e);
    }
}

fn find_fn<'a>(file: &'a File, item: &Value) -> Option<(Signature, Block, Vec<Attribute>, (usize, usize), Option<ItemImpl>)> {
    let ident = s(item, "ident")?;
    let impl_self = s(item, "impl_self");
    let impl_trait = s(item, "impl_trait");
    fn walk<'a>(
        items: &'a [Item],
        ident: &str,
        impl_self: &Option<String>,
        impl_trait: &Option<String>,
    ) -> Option<(Signature, Block, Vec<Attribute>, (usize, usize), Option<ItemImpl>)> {
        for it in items {
            match it {
                Item::Fn(f) if impl_self.is_none() && f.sig.ident == ident => {
                    return Some((f.sig.clone(), (*f.block).clone(), f.attrs.clone(), full_span(f), None));
                }
                Item::Impl(im) if impl_self.is_some() => {
                    // `impl_self` starting with `=`: the self type must be exactly this text (e.g. `=()`, `=&()`), not just named so
                    let hit = match impl_self.as_deref() {
                        Some(x) if x.starts_with('=') => norm(&im.self_ty) == x[1..].replace(' ', ""),
                        x => type_ident(&im.self_ty).as_deref() == x,
                    };
                    if !hit {
                        continue;
                    }
                    if let Some(t) = impl_trait {
                        let have = im.trait_.as_ref().map(|(_, p, _)| norm(p)).unwrap_or_default();
                        if &have != t {
                            continue;
                        }
                    }
                    for ii in &im.items {
                        if let ImplItem::Fn(f) = ii {
                            if f.sig.ident == ident {
                                let mut shell = im.clone();
                                shell.items.clear();
                                return Some((f.sig.clone(), f.block.clone(), f.attrs.clone(), full_span(f), Some(shell)));
                            }
                        }
                    }
                }
                Item::Mod(m) => {
                    if let Some((_, items)) = &m.content {
                        if let Some(r) = walk(items, ident, impl_self, impl_trait) {
                            return Some(r);
                        }
                    }
                }
                _ => {}
            }
        }
        None
    }
    walk(&file.items, &ident, &impl_self, &impl_trait)
}

fn rustfmt(src: &str) -> String {
    use std::io::Write;
    use std::process::{Command, Stdio};
    let mut ch = Command::new("rustfmt")
        .args(["--edition", "2021", "--config", "max_width=110"])
        .stdin(Stdio::piped())
        .stdout(Stdio::piped())
        .stderr(Stdio::piped())
        .spawn()
        .expect("rustfmt");
    ch.stdin.take().unwrap().write_all(src.as_bytes()).unwrap();
    let out = ch.wait_with_output().unwrap();
    if !out.status.success() {
        fail(
            "rustfmt",
            format!("{}\n---\n{}", String::from_utf8_lossy(&out.stderr), src),
        );
    }
    String::from_utf8(out.stdout).unwrap()
}

fn main() {
    let args: Vec<String> = std::env::args().collect();
    let req: Value = serde_json::from_str(&std::fs::read_to_string(&args[1]).expect("request")).expect("json");
    let repo = s(&req, "repo").unwrap_or("/repo".into());
    let features: BTreeSet<String> = req["features"]
        .as_array()
        .map(|a| a.iter().filter_map(|x| x.as_str().map(String::from)).collect())
        .unwrap_or_default();
    let mut out = serde_json::Map::new();
    for item in req["items"].as_array().expect("items") {
        let name = s(item, "name").expect("name");
        let file_rel = s(item, "file").expect("file");
        let path = format!("{}/{}", repo, file_rel);
        let src = match std::fs::read_to_string(&path) {
            Ok(s) => s,
            Err(e) => fail("anchor-lost", format!("{}: {}", path, e)),
        };
        let mut file = match syn::parse_file(&src) {
            Ok(f) => f,
            Err(e) => fail("parse", format!("{}: {}", path, e)),
        };
        // R0: cfg evaluation
        let mut cfgv = cfg::CfgEval { features: &features, fired: 0 };
        cfgv.visit_file_mut(&mut file);
        rules::rename_raw_file(&mut file);
        let kind = s(item, "kind").expect("kind");
        let mut fired: Vec<String> = vec![];
        if cfgv.fired > 0 {
            fired.push(format!("R0-cfg x{}", cfgv.fired));
        }
        // lines of /repo this item puts under contract (default: its span; nothing for contract-only stubs and for the
        // purely syntactic kinds) - the driver's glue account subtracts them from the functions of the crate
        let mut covered_override: Option<Vec<(usize, usize)>> = None;
        let (text, span) = match kind.as_str() {
            "fn_index" => {
                // every function of the file outside `#[cfg(test)]` modules: qualified name and line span
                let mut out_fns: Vec<Value> = vec![];
                fn walk_idx(items: &[Item], prefix: &str, out: &mut Vec<Value>) {
                    for it in items {
                        match it {
                            Item::Fn(f) => out.push(json!({"name": format!("{}{}", prefix, f.sig.ident), "span": [full_span(f).0, full_span(f).1]})),
                            Item::Impl(im) => {
                                let st = type_ident(&im.self_ty).unwrap_or_else(|| norm(&im.self_ty));
                                let tr = im.trait_.as_ref().map(|(_, p, _)| format!("<{}>", norm(p))).unwrap_or_default();
                                for ii in &im.items {
                                    if let ImplItem::Fn(f) = ii {
                                        out.push(json!({"name": format!("{}{}{}::{}", prefix, st, tr, f.sig.ident), "span": [full_span(f).0, full_span(f).1]}));
                                    }
                                }
                            }
                            Item::Mod(m) => {
                                let is_test = m.attrs.iter().any(|a| a.path().is_ident("cfg") && a.meta.to_token_stream().to_string().replace(' ', "").contains("cfg(test)"));
                                if is_test { continue; }
                                if let Some((_, items)) = &m.content { walk_idx(items, &format!("{}{}::", prefix, m.ident), out); }
                            }
                            Item::Trait(t) => {
                                for ti in &t.items {
                                    if let TraitItem::Fn(f) = ti {
                                        if f.default.is_some() { out.push(json!({"name": format!("{}{}::{}", prefix, t.ident, f.sig.ident), "span": [full_span(f).0, full_span(f).1]})); }
                                    }
                                }
                            }
                            _ => {}
                        }
                    }
                }
                // the index is taken from the file as written (all cfg alternatives), not from the cfg-evaluated copy
                let raw = syn::parse_file(&src).unwrap();
                walk_idx(&raw.items, "", &mut out_fns);
                covered_override = Some(vec![]);
                (Value::Array(out_fns).to_string(), (1usize, 1usize))
            }
            "fn" | "impl_fn" => {
                let (mut sig, mut block, _attrs, span, shell) = match find_fn(&file, item) {
                    Some(x) => x,
                    None => fail("anchor-lost", format!("{}: fn {:?} in {}", name, s(item, "ident"), file_rel)),
                };
                let strip_async = item.get("strip_async").and_then(|x| x.as_bool()).unwrap_or(false);
                if sig.asyncness.is_some() {
                    if strip_async {
                        sig.asyncness = None;
                        fired.push("R6-async-fn".into());
                    } else {
                        fail("unsupported", format!("{}: async fn without strip_async", name));
                    }
                }
                if let Some(n) = s(item, "rename_fn") {
                    sig.ident = Ident::new(&n, Span::call_site());
                }
                if let Some(pt) = item.get("param_types").and_then(|x| x.as_object()) {
                    // R9': parameters of an `impl Trait` type get the prelude type named by the unit
                    for a in sig.inputs.iter_mut() {
                        if let FnArg::Typed(t) = a {
                            if let Pat::Ident(pi) = &*t.pat {
                                if let Some(nt) = pt.get(&pi.ident.to_string()).and_then(|x| x.as_str()) {
                                    let ty: Type = syn::parse_str(nt).unwrap_or_else(|e| fail("config", format!("{}: {}", name, e)));
                                    *t.ty = ty;
                                    fired.push(format!("R9-param-type-{}", pi.ident));
                                }
                            }
                        }
                    }
                }
                if let Some(r) = s(item, "ret_override") {
                    // R9: `impl Iterator` return types become the prelude iterator type named by the unit
                    let ty: Type = syn::parse_str(&r).unwrap_or_else(|e| fail("config", format!("{}: {}", name, e)));
                    sig.output = ReturnType::Type(Default::default(), Box::new(ty));
                    fired.push("R9-lazy-return-type".into());
                }
                if let Some(until) = s(item, "until") {
                    // R16: only the prologue of the function is taken: the statements before `let <until> = ..`
                    let mut cut = None;
                    for (i, st) in block.stmts.iter().enumerate() {
                        if let Stmt::Local(l) = st {
                            let mut p = &l.pat;
                            if let Pat::Type(t) = p { p = &t.pat; }
                            if let Pat::Ident(pi) = p {
                                if pi.ident == until { cut = Some(i); break; }
                            }
                        }
                    }
                    match cut {
                        Some(i) => { block.stmts.truncate(i); }
                        None => fail("anchor-lost", format!("{}: no `let {} = ..` in fn {}", name, until, sig.ident)),
                    }
                    sig.output = ReturnType::Default;
                    fired.push(format!("R16-prologue-until-{}", until));
                }
                if item.get("drop_tail").and_then(|x| x.as_bool()).unwrap_or(false) {
                    // R16: the tail expression (the returned stream / future) is not part of the prologue
                    if let Some(Stmt::Expr(_, None)) = block.stmts.last() {
                        block.stmts.pop();
                        sig.output = ReturnType::Default;
                        fired.push("R16-prologue-without-tail".into());
                    } else {
                        fail("anchor-lost", format!("{}: fn {} has no tail expression", name, sig.ident));
                    }
                }
                let marker_name = s(item, "marker_name").unwrap_or_else(|| sig.ident.to_string());
                let contract_only = item.get("contract_only").and_then(|x| x.as_bool()).unwrap_or(false);
                if contract_only {
                    covered_override = Some(vec![]);
                } else if s(item, "until").is_some() || item.get("drop_tail").and_then(|x| x.as_bool()).unwrap_or(false) {
                    // a prologue: from the function's first line to the last statement kept
                    let mut hi = full_span(&sig).1;
                    for st in block.stmts.iter() { hi = hi.max(full_span(st).1); }
                    covered_override = Some(vec![(span.0, hi)]);
                }
                // R21: a by-value `mut self` receiver (not supported by Verus) becomes `self` + `let mut vx_self = self;`
                // with every `self` of the body renamed: the same move, spelled with a local
                if let Some(FnArg::Receiver(r)) = sig.inputs.first_mut() {
                    if r.reference.is_none() && r.mutability.is_some() {
                        r.mutability = None;
                        if !contract_only {
                            rules::rename_self(&mut block, "vx_self");
                            block.stmts.insert(0, parse_quote! { let mut vx_self = self; });
                        }
                        fired.push("R21-mut-self-receiver".into());
                    }
                }
                if contract_only {
                    // modular use: only the signature is taken; the body is verified in the unit that owns the fn
                    block = parse_quote! { { vx_contract_only!(); unimplemented!() } };
                    fired.push("contract-only (body verified in its own unit)".into());
                } else {
                    rules::apply_all(&mut block, item, &mut fired, &name);
                }
                rules::clean_sig(&mut sig);
                if item.get("strip_where").and_then(|x| x.as_bool()).unwrap_or(false) {
                    // bounds on the user's callback types are dropped: the extracted part never calls them
                    sig.generics.where_clause = None;
                    fired.push("R16-where-clause-dropped".into());
                }
                if item.get("world").and_then(|x| x.as_bool()).unwrap_or(false) {
                    sig.inputs.push(parse_quote! { Tracked(w): Tracked<&mut World> });
                }
                let unit_ret = matches!(sig.output, ReturnType::Default);
                rules::mark_ret(&mut block, &marker_name, unit_ret);
                let ret = rules::ret_marker(&mut sig);
                let as_free = item.get("as_free_fn").and_then(|x| x.as_bool()).unwrap_or(false);
                if as_free {
                    // R31: a method of an impl whose self type cannot carry an inherent impl here (`()`, `&()`) is emitted as a
                    // free function: `&self` becomes the parameter `vx_self: &SelfTy`, `where Self: Sized` is dropped
                    if let Some(sh) = &shell {
                        let self_ty = sh.self_ty.clone();
                        if let Some(FnArg::Receiver(r)) = sig.inputs.first().cloned() {
                            let new_arg: FnArg = if r.reference.is_some() {
                                if r.mutability.is_some() { parse_quote! { vx_self: &mut #self_ty } } else { parse_quote! { vx_self: &#self_ty } }
                            } else { parse_quote! { vx_self: #self_ty } };
                            let mut inputs: Vec<FnArg> = sig.inputs.iter().cloned().collect();
                            inputs[0] = new_arg;
                            sig.inputs = inputs.into_iter().collect();
                            if !contract_only { rules::rename_self(&mut block, "vx_self"); }
                        }
                        // the impl's generics and bounds move to the function; the method's own `where Self: Sized` is dropped
                        let mut params: Vec<GenericParam> = sh.generics.params.iter().cloned().collect();
                        params.extend(sig.generics.params.iter().cloned());
                        sig.generics.params = params.into_iter().collect();
                        if !sig.generics.params.is_empty() && sig.generics.lt_token.is_none() { sig.generics.lt_token = Some(Default::default()); sig.generics.gt_token = Some(Default::default()); }
                        sig.generics.where_clause = sh.generics.where_clause.clone();
                        fired.push("R31-method-as-free-fn".into());
                    }
                }
                let f = quote! { #sig #block };
                let shell = if as_free { None } else { shell };
                let text = match shell {
                    Some(mut sh) => {
                        sh.attrs.clear();
                        let (impl_generics, _, where_clause) = sh.generics.split_for_impl();
                        let self_ty = &sh.self_ty;
                        let inherent = item.get("inherent").and_then(|x| x.as_bool()).unwrap_or(false);
                        let tr = if inherent { None } else { sh.trait_.as_ref().map(|(_, p, _)| quote! { #p for }) };
                        let wc = rules::clean_where(where_clause);
                        quote! { impl #impl_generics #tr #self_ty #wc { #f } }.to_string()
                    }
                    None => f.to_string(),
                };
                let _ = ret;
                // R17: module-level `const`s of the same file that the function names are extracted with it
                let mut text = text;
                struct Caps(Vec<String>);
                impl<'ast> Visit<'ast> for Caps {
                    fn visit_path(&mut self, p: &'ast syn::Path) {
                        if let Some(i) = p.get_ident() {
                            let s = i.to_string();
                            if s.len() > 1 && s.chars().all(|c| c.is_ascii_uppercase() || c == '_' || c.is_ascii_digit()) {
                                self.0.push(s);
                            }
                        }
                        syn::visit::visit_path(self, p);
                    }
                }
                let mut caps = Caps(vec![]);
                if let Some((_, blk, _, _, _)) = find_fn(&file, item) {
                    caps.visit_block(&blk);
                }
                for it in &file.items {
                    if let Item::Const(c) = it {
                        if caps.0.contains(&c.ident.to_string()) {
                            let mut c = c.clone();
                            c.attrs.clear();
                            c.vis = Visibility::Inherited;
                            text = format!("{} {}", c.to_token_stream(), text);
                            fired.push(format!("R17-const-{}", c.ident));
                        }
                    }
                }
                (rustfmt(&text), span)
            }
            "tail" => {
                // R16': the tail expression of a function becomes a function of the locals it reads (declared by the unit)
                let (fsig, block, _attrs, _span, _shell) = match find_fn(&file, item) {
                    Some(x) => x,
                    None => fail("anchor-lost", format!("{}: fn {:?} in {}", name, s(item, "ident"), file_rel)),
                };
                let mut block = block;
                if let Some(al) = s(item, "in_async_let") {
                    // the epilogue lives inside `let <al> = async move { .. };`: work on that block
                    let mut inner = None;
                    for st in block.stmts.iter() {
                        if let Stmt::Local(l) = st {
                            if let Pat::Ident(pi) = &l.pat {
                                if pi.ident == al {
                                    if let Some(init) = &l.init {
                                        if let Expr::Async(a) = &*init.expr { inner = Some(a.block.clone()); }
                                    }
                                }
                            }
                        }
                    }
                    block = match inner {
                        Some(b) => b,
                        None => fail("anchor-lost", format!("{}: no `let {} = async ..` in fn {}", name, al, fsig.ident)),
                    };
                    fired.push(format!("R16'-inside-async-block-{}", al));
                }
                if let Some(ul) = s(item, "until_let") {
                    // the epilogue ends before `let <ul> = ..`; `ret_expr` names what it hands on
                    let mut cut = None;
                    for (i, st) in block.stmts.iter().enumerate() {
                        if let Stmt::Local(l) = st {
                            let mut p = &l.pat;
                            if let Pat::Type(t) = p { p = &t.pat; }
                            if let Pat::Ident(pi) = p { if pi.ident == ul && cut.is_none() { cut = Some(i); } }
                        }
                    }
                    match cut {
                        Some(i) => block.stmts.truncate(i),
                        None => fail("anchor-lost", format!("{}: no `let {} = ..` in fn {}", name, ul, fsig.ident)),
                    }
                    let re: Expr = syn::parse_str(&s(item, "ret_expr").expect("ret_expr")).unwrap();
                    block.stmts.push(Stmt::Expr(re, None));
                }
                let tail = match block.stmts.last() {
                    Some(Stmt::Expr(e, None)) => e.clone(),
                    _ => fail("anchor-lost", format!("{}: fn {} has no tail expression", name, fsig.ident)),
                };
                let span = full_span(&tail);
                let as_fn = s(item, "as_fn").unwrap_or(name.clone());
                let mut body: Block = parse_quote! { { #tail } };
                if item.get("after_expr_await").and_then(|x| x.as_bool()).unwrap_or(false) {
                    // everything after the last statement of the form `<expr>.await;`
                    let mut cut = None;
                    for (i, st) in block.stmts.iter().enumerate() {
                        if let Stmt::Expr(Expr::Await(_), Some(_)) = st { cut = Some(i); }
                    }
                    match cut {
                        Some(i) => { body.stmts = block.stmts[i + 1..].to_vec(); }
                        None => fail("anchor-lost", format!("{}: no `<expr>.await;` statement in fn {}", name, fsig.ident)),
                    }
                }
                if let Some(mac) = s(item, "after_macro") {
                    // everything after `let <pat> = <path>::<mac>!(..);`
                    let mut cut = None;
                    for (i, st) in block.stmts.iter().enumerate() {
                        if let Stmt::Local(l) = st {
                            if let Some(init) = &l.init {
                                if let Expr::Macro(m) = &*init.expr {
                                    if m.mac.path.segments.last().map(|x| x.ident == mac).unwrap_or(false) { cut = Some(i); }
                                }
                            }
                        }
                    }
                    match cut {
                        Some(i) => { body.stmts = block.stmts[i + 1..].to_vec(); }
                        None => fail("anchor-lost", format!("{}: no `let .. = {}!(..)` in fn {}", name, mac, fsig.ident)),
                    }
                }
                if let Some(after) = s(item, "after") {
                    // everything after `let <after> = ..;` belongs to the epilogue (not only the tail expression)
                    let mut cut = None;
                    for (i, st) in block.stmts.iter().enumerate() {
                        if let Stmt::Local(l) = st {
                            let mut p = &l.pat;
                            if let Pat::Type(t) = p { p = &t.pat; }
                            if let Pat::Ident(pi) = p { if pi.ident == after { cut = Some(i); } }
                        }
                    }
                    match cut {
                        Some(i) => { body.stmts = block.stmts[i + 1..].to_vec(); }
                        None => fail("anchor-lost", format!("{}: no `let {} = ..` in fn {}", name, after, fsig.ident)),
                    }
                }
                {
                    let mut lo = usize::MAX; let mut hi = 0usize;
                    // statements parsed from a string of the unit description (`ret_expr`) sit on "line 1": not source positions
                    for st in body.stmts.iter() { let (a, b) = full_span(st); if b <= 1 { continue; } if a > 1 { lo = lo.min(a); } hi = hi.max(b); }
                    if lo != usize::MAX { covered_override = Some(vec![(lo, hi)]); }
                }
                rules::apply_all(&mut body, item, &mut fired, &name);
                rules::mark_ret(&mut body, &as_fn, false);
                let mut params: Vec<TokenStream> = vec![];
                if let Some(a) = item.get("params").and_then(|x| x.as_array()) {
                    for p in a {
                        let p = p.as_array().unwrap();
                        let n = Ident::new(p[0].as_str().unwrap(), Span::call_site());
                        let t: Type = syn::parse_str(p[1].as_str().unwrap()).unwrap();
                        params.push(quote! { #n: #t });
                    }
                }
                if item.get("world").and_then(|x| x.as_bool()).unwrap_or(false) {
                    params.push(quote! { Tracked(w): Tracked<&mut World> });
                }
                let gen: TokenStream = s(item, "generics").map(|g| syn::parse_str(&g).unwrap()).unwrap_or_default();
                let ret: Type = syn::parse_str(&s(item, "ret").expect("ret")).unwrap();
                let fid = Ident::new(&as_fn, Span::call_site());
                fired.push("R16'-tail-expression".into());
                (rustfmt(&quote! { fn #fid #gen (#(#params),*) -> vx_ret!(#ret) #body }.to_string()), span)
            }
            "call_arg" => {
                // syntactic side condition: the token text of argument `arg` of the `nth` call of `call` in the fn
                let (fsig, block, _attrs, span, _shell) = match find_fn(&file, item) {
                    Some(x) => x,
                    None => fail("anchor-lost", format!("{}: fn {:?} in {}", name, s(item, "ident"), file_rel)),
                };
                let call = s(item, "call").expect("call");
                let nth = item.get("nth").and_then(|x| x.as_u64()).unwrap_or(0) as usize;
                let arg = item.get("arg").and_then(|x| x.as_u64()).unwrap_or(0) as usize;
                struct ArgFinder<'a> { call: &'a str, nth: usize, arg: usize, seen: usize, found: Option<String> }
                impl<'a, 'ast> Visit<'ast> for ArgFinder<'a> {
                    fn visit_expr_method_call(&mut self, e: &'ast ExprMethodCall) {
                        self.visit_expr(&e.receiver);
                        if e.method == self.call {
                            if self.seen == self.nth && self.found.is_none() {
                                self.found = e.args.iter().nth(self.arg).map(|a| norm(a));
                            }
                            self.seen += 1;
                        }
                        for a in e.args.iter() { self.visit_expr(a); }
                    }
                    fn visit_expr_call(&mut self, e: &'ast ExprCall) {
                        let nm = match &*e.func { Expr::Path(p) => p.path.segments.last().map(|s| s.ident.to_string()), _ => None };
                        if nm.as_deref() == Some(self.call) {
                            if self.seen == self.nth && self.found.is_none() {
                                self.found = e.args.iter().nth(self.arg).map(|a| norm(a));
                            }
                            self.seen += 1;
                        }
                        syn::visit::visit_expr_call(self, e);
                    }
                }
                let mut af = ArgFinder { call: &call, nth, arg, seen: 0, found: None };
                af.visit_block(&block);
                let _ = fsig;
                match af.found {
                    Some(t) => (t, span),
                    None => fail("anchor-lost", format!("{}: call #{} of `{}` arg {} in fn {:?}", name, nth, call, arg, s(item, "ident"))),
                }
            }
            "statics" => {
                // syntactic side condition: the `static` items and thread_local!/lazy_static! invocations of the
                // file (after cfg evaluation; nested modules and fn bodies included) and its out-of-line `mod x;`
                struct St { statics: Vec<String>, mods: Vec<String> }
                impl<'ast> Visit<'ast> for St {
                    fn visit_item_static(&mut self, i: &'ast ItemStatic) {
                        let m = if matches!(i.mutability, StaticMutability::Mut(_)) { "mut " } else { "" };
                        self.statics.push(format!("static {}{}: {}", m, i.ident, norm(&*i.ty)));
                    }
                    fn visit_macro(&mut self, m: &'ast Macro) {
                        let last = m.path.segments.last().map(|x| x.ident.to_string()).unwrap_or_default();
                        if last == "thread_local" || last == "lazy_static" {
                            self.statics.push(format!("{}! {{ {} }}", last, m.tokens.to_string().chars().take(4000).collect::<String>()));
                        }
                        syn::visit::visit_macro(self, m);
                    }
                    fn visit_item_mod(&mut self, m: &'ast ItemMod) {
                        if m.content.is_none() {
                            self.mods.push(m.ident.to_string());
                        }
                        syn::visit::visit_item_mod(self, m);
                    }
                }
                let mut st = St { statics: vec![], mods: vec![] };
                st.visit_file(&file);
                let v = serde_json::json!({ "statics": st.statics, "mods": st.mods });
                (v.to_string(), (1usize, src.lines().count()))
            }
            "await_match" => {
                // R23: a closure argument of the exact shape
                //     |x| { let <fut> = <user_fn>(x); async move { match <fut>.await { ARMS } } }
                // becomes  fn <as_fn>(<param>: <param_ty>) -> <ret> { match <param> { ARMS } } : the mapping applied to the
                // awaited outcome of the user's future. Any other shape is refused (anchor-lost).
                let (fsig, block, _attrs, _span, _shell) = match find_fn(&file, item) {
                    Some(x) => x,
                    None => fail("anchor-lost", format!("{}: fn {:?} in {}", name, s(item, "ident"), file_rel)),
                };
                let call = s(item, "call").expect("call");
                let nth = item.get("nth").and_then(|x| x.as_u64()).unwrap_or(0) as usize;
                let arg = item.get("arg").and_then(|x| x.as_u64()).unwrap_or(0) as usize;
                let user_fn = s(item, "user_fn").expect("user_fn");
                let mut finder = ClosureFinder { call: &call, nth, arg, seen: 0, found: None };
                finder.visit_block(&block);
                let clo = match finder.found {
                    Some(c) => c,
                    None => fail("anchor-lost", format!("{}: closure arg {} of call #{} `{}` in fn {}", name, arg, nth, call, fsig.ident)),
                };
                let span = full_span(&clo);
                let bad = |why: &str| -> ! { fail("anchor-lost", format!("{}: closure of `{}` in fn {} does not have the shape `let f = {}(..); async move {{ match f.await {{..}} }}` ({})", name, call, fsig.ident, user_fn, why)) };
                let body = match &*clo.body { Expr::Block(b) => b.block.clone(), _ => bad("body is not a block") };
                if body.stmts.len() != 2 { bad("not exactly two statements"); }
                let fut_name = match &body.stmts[0] {
                    Stmt::Local(l) => {
                        let id = match &l.pat { Pat::Ident(pi) => pi.ident.clone(), _ => bad("first statement binds a pattern") };
                        match l.init.as_ref().map(|i| &*i.expr) {
                            Some(Expr::Call(c)) => match &*c.func { Expr::Path(p_) if p_.path.is_ident(&user_fn) => {}, _ => bad("first statement does not call the user's function") },
                            _ => bad("first statement is not a call"),
                        }
                        id
                    }
                    _ => bad("first statement is not a let"),
                };
                let m = match &body.stmts[1] {
                    Stmt::Expr(Expr::Async(a), None) => {
                        if a.block.stmts.len() != 1 { bad("async block has more than one statement"); }
                        match &a.block.stmts[0] { Stmt::Expr(Expr::Match(m), None) => m.clone(), _ => bad("async block is not a single match") }
                    }
                    _ => bad("second statement is not an async block"),
                };
                match &*m.expr { Expr::Await(aw) => match &*aw.base { Expr::Path(p_) if p_.path.is_ident(&fut_name) => {}, _ => bad("the match is not on the awaited future of the user's call") }, _ => bad("the match is not on an await") }
                let param = Ident::new(&s(item, "param").unwrap_or("outcome".into()), Span::call_site());
                let pty: Type = syn::parse_str(&s(item, "param_ty").expect("param_ty")).unwrap();
                let ret: Type = syn::parse_str(&s(item, "ret").expect("ret")).unwrap();
                let gen: TokenStream = s(item, "generics").map(|g| syn::parse_str(&g).unwrap()).unwrap_or_default();
                let as_fn = s(item, "as_fn").unwrap_or(name.clone());
                let fid = Ident::new(&as_fn, Span::call_site());
                let mut mm = m.clone();
                mm.expr = Box::new(parse_quote! { #param });
                let mut blk: Block = parse_quote! { { #mm } };
                rules::apply_all(&mut blk, item, &mut fired, &name);
                rules::mark_ret(&mut blk, &as_fn, false);
                fired.push("R23-match-on-awaited-user-future".into());
                (rustfmt(&quote! { fn #fid #gen (#param: #pty) -> vx_ret!(#ret) #blk }.to_string()), span)
            }
            "serde_attrs" => {
                // syntactic side condition (C17): the derive list of a type and every `serde(..)` attribute on the type,
                // its variants and its fields, with `cfg_attr(cond, ..)` expanded under the unit's features.
                // NOTE: works on the ORIGINAL file text (the cfg filter clears attributes).
                let orig = syn::parse_file(&src).unwrap_or_else(|e| fail("parse", format!("{}: {}", path, e)));
                let ident = s(item, "ident").expect("ident");
                fn metas(attrs: &[Attribute], features: &BTreeSet<String>, out: &mut Vec<Meta>) {
                    for a in attrs {
                        if a.path().is_ident("cfg_attr") {
                            if let Meta::List(l) = &a.meta {
                                if let Ok(items) = l.parse_args_with(syn::punctuated::Punctuated::<Meta, Token![,]>::parse_terminated) {
                                    let mut it = items.into_iter();
                                    if let Some(cond) = it.next() {
                                        if cfg::eval_meta(&cond, features) { for m in it { out.push(m); } }
                                    }
                                }
                            }
                        } else {
                            out.push(a.meta.clone());
                        }
                    }
                }
                let mut derives: Vec<String> = vec![];
                let mut serde: Vec<String> = vec![];
                let mut found = false;
                let mut take = |attrs: &[Attribute], wher: &str, derives: &mut Vec<String>, serde: &mut Vec<String>| {
                    let mut ms = vec![];
                    metas(attrs, &features, &mut ms);
                    for m in ms {
                        if m.path().is_ident("derive") {
                            if let Meta::List(l) = &m {
                                if let Ok(ps) = l.parse_args_with(syn::punctuated::Punctuated::<syn::Path, Token![,]>::parse_terminated) {
                                    for p_ in ps { derives.push(p_.segments.last().map(|x| x.ident.to_string()).unwrap_or_default()); }
                                }
                            }
                        } else if m.path().is_ident("serde") {
                            serde.push(format!("{}: {}", wher, norm(&m)));
                        }
                    }
                };
                let mut span = (1usize, 1usize);
                for it in &orig.items {
                    match it {
                        Item::Struct(st) if st.ident == ident => {
                            found = true; span = full_span(it);
                            take(&st.attrs, "type", &mut derives, &mut serde);
                            for f in st.fields.iter() { take(&f.attrs, "field", &mut derives, &mut serde); }
                        }
                        Item::Enum(en) if en.ident == ident => {
                            found = true; span = full_span(it);
                            take(&en.attrs, "type", &mut derives, &mut serde);
                            for v in en.variants.iter() { take(&v.attrs, "variant", &mut derives, &mut serde); for f in v.fields.iter() { take(&f.attrs, "field", &mut derives, &mut serde); } }
                        }
                        _ => {}
                    }
                }
                if !found { fail("anchor-lost", format!("{}: type {} in {}", name, ident, file_rel)); }
                // hand-written impls of the serde traits for the type
                let mut manual: Vec<String> = vec![];
                for it in &orig.items {
                    if let Item::Impl(im) = it {
                        if type_ident(&im.self_ty).as_deref() == Some(ident.as_str()) {
                            if let Some((_, p_, _)) = &im.trait_ {
                                let t = p_.segments.last().map(|x| x.ident.to_string()).unwrap_or_default();
                                if t == "Serialize" || t == "Deserialize" { manual.push(t); }
                            }
                        }
                    }
                }
                let v = serde_json::json!({ "derives": derives, "serde_attrs": serde, "manual_impls": manual });
                (v.to_string(), span)
            }
            "binders" => {
                // syntactic side condition: how often the fn body (re)binds the identifier `binder` (let / closure
                // parameter / match arm patterns), and whether the fn parameter of that name is declared `mut`
                let (fsig, block, _attrs, span, _shell) = match find_fn(&file, item) {
                    Some(x) => x,
                    None => fail("anchor-lost", format!("{}: fn {:?} in {}", name, s(item, "ident"), file_rel)),
                };
                let b = s(item, "binder").expect("binder");
                struct Bd<'a> { b: &'a str, n: usize, assigns: usize }
                impl<'a, 'ast> Visit<'ast> for Bd<'a> {
                    fn visit_pat_ident(&mut self, p: &'ast PatIdent) {
                        if p.ident == self.b { self.n += 1; }
                        syn::visit::visit_pat_ident(self, p);
                    }
                    fn visit_expr_assign(&mut self, a: &'ast ExprAssign) {
                        if let Expr::Path(p) = &*a.left { if p.path.is_ident(self.b) { self.assigns += 1; } }
                        syn::visit::visit_expr_assign(self, a);
                    }
                }
                let mut bd = Bd { b: &b, n: 0, assigns: 0 };
                bd.visit_block(&block);
                let mut param = false;
                let mut param_mut = false;
                for a in fsig.inputs.iter() {
                    if let FnArg::Typed(t) = a {
                        if let Pat::Ident(pi) = &*t.pat {
                            if pi.ident == b { param = true; param_mut = pi.mutability.is_some(); }
                        }
                    }
                }
                let v = serde_json::json!({ "param": param, "param_mut": param_mut, "rebinds": bd.n, "assigns": bd.assigns });
                (v.to_string(), span)
            }
            "closure" => {
                let (fsig, block, _attrs, _span, _shell) = match find_fn(&file, item) {
                    Some(x) => x,
                    None => fail("anchor-lost", format!("{}: fn {:?} in {}", name, s(item, "ident"), file_rel)),
                };
                let call = s(item, "call").expect("call");
                let nth = item.get("nth").and_then(|x| x.as_u64()).unwrap_or(0) as usize;
                let arg = item.get("arg").and_then(|x| x.as_u64()).unwrap_or(0) as usize;
                let mut finder = ClosureFinder { call: &call, nth, arg, seen: 0, found: None };
                finder.visit_block(&block);
                let clo = match finder.found {
                    Some(c) => c,
                    None => fail(
                        "anchor-lost",
                        format!("{}: closure arg {} of call #{} `{}` in fn {}", name, arg, nth, call, fsig.ident),
                    ),
                };
                let span = full_span(&clo);
                let mut text = rules::hoist_closure(clo, item, &mut fired, &name);
                if item.get("contract_only").and_then(|x| x.as_bool()).unwrap_or(false) {
                    // modular use of a hoisted closure: only its signature; the body is verified in the unit that owns it
                    let mut f: ItemFn = syn::parse_str(&text).unwrap_or_else(|e| fail("rule-refused", format!("{}: hoisted closure is not a fn item: {}", name, e)));
                    let fname = f.sig.ident.clone();
                    f.block = Box::new(parse_quote! { { vx_fn_head!(#fname); vx_contract_only!(); vx_fn_end!(#fname); unimplemented!() } });
                    text = f.to_token_stream().to_string();
                    covered_override = Some(vec![]);
                    fired.push("contract-only (body verified in its own unit)".into());
                }
                (rustfmt(&text), span)
            }
            "struct" | "enum" => {
                let ident = s(item, "ident").expect("ident");
                let mut found = None;
                for it in &file.items {
                    match it {
                        Item::Struct(st) if kind == "struct" && st.ident == ident => {
                            let mut st = st.clone();
                            let keep = rules::kept_derives(&st.attrs, item);
                            st.attrs.clear();
                            st.vis = Visibility::Public(Default::default());
                            for f in st.fields.iter_mut() {
                                f.attrs.clear();
                                f.vis = Visibility::Public(Default::default());
                            }
                            found = Some((quote! { #keep #st }.to_string(), full_span(it)));
                        }
                        Item::Enum(en) if kind == "enum" && en.ident == ident => {
                            let mut en = en.clone();
                            let keep = rules::kept_derives(&en.attrs, item);
                            en.attrs.clear();
                            en.vis = Visibility::Public(Default::default());
                            for v in en.variants.iter_mut() {
                                v.attrs.clear();
                            }
                            found = Some((quote! { #keep #en }.to_string(), full_span(it)));
                        }
                        _ => {}
                    }
                }
                match found {
                    Some((t, sp)) => (rustfmt(&t), sp),
                    None => fail("anchor-lost", format!("{}: {} {} in {}", name, kind, ident, file_rel)),
                }
            }
            "impl" => {
                let impl_self = s(item, "impl_self").expect("impl_self");
                let impl_trait = s(item, "impl_trait").unwrap_or_default();
                let prefix = s(item, "fn_prefix").unwrap_or_default();
                let mut found = None;
                for it in &file.items {
                    if let Item::Impl(im) = it {
                        if type_ident(&im.self_ty).as_deref() != Some(impl_self.as_str()) {
                            continue;
                        }
                        let have = im.trait_.as_ref().map(|(_, p, _)| norm(p)).unwrap_or_default();
                        if have != impl_trait {
                            continue;
                        }
                        let mut im = im.clone();
                        im.attrs.clear();
                        im.unsafety = None;
                        for ii in im.items.iter_mut() {
                            match ii {
                                ImplItem::Fn(f) => {
                                    f.attrs.clear();
                                    f.vis = Visibility::Inherited;
                                    rules::apply_all(&mut f.block, item, &mut fired, &name);
                                    let nm = format!("{}{}", prefix, f.sig.ident);
                                    rules::mark(&mut f.block, &nm);
                                    rules::ret_marker(&mut f.sig);
                                }
                                ImplItem::Type(t) => t.attrs.clear(),
                                ImplItem::Const(c) => c.attrs.clear(),
                                _ => {}
                            }
                        }
                        found = Some((im.to_token_stream().to_string(), full_span(it)));
                    }
                }
                match found {
                    Some((t, sp)) => (rustfmt(&t), sp),
                    None => fail("anchor-lost", format!("{}: impl {} for {} in {}", name, impl_trait, impl_self, file_rel)),
                }
            }
            "type" => {
                let ident = s(item, "ident").expect("ident");
                let mut found = None;
                for it in &file.items {
                    if let Item::Type(t) = it {
                        if t.ident == ident {
                            let mut t = t.clone();
                            t.attrs.clear();
                            t.vis = Visibility::Public(Default::default());
                            found = Some((t.to_token_stream().to_string(), full_span(it)));
                        }
                    }
                }
                match found {
                    Some((t, sp)) => (rustfmt(&t), sp),
                    None => fail("anchor-lost", format!("{}: type {} in {}", name, ident, file_rel)),
                }
            }
            _ => fail("config", format!("unknown kind {}", kind)),
        };
        // original text of the span, for hashing by the driver
        let lines: Vec<&str> = src.lines().collect();
        let orig = if span.0 >= 1 && span.1 <= lines.len() {
            lines[span.0 - 1..span.1].join("\n")
        } else {
            String::new()
        };
        out.insert(
            name,
            json!({"text": text, "file": file_rel, "span": [span.0, span.1], "rules": fired, "orig": orig,
                   "covered": covered_override.unwrap_or_else(|| if matches!(kind.as_str(), "statics" | "binders" | "serde_attrs" | "call_arg") { vec![] } else { vec![span] })
                       .into_iter().map(|(a, b)| vec![a, b]).collect::<Vec<_>>()}),
        );
    }
    println!("{}", Value::Object(out));
}

#[allow(dead_code)]
fn unused(_: TokenStream, _: &mut dyn VisitMut) {
    let _ = visit_mut::visit_block_mut::<cfg::CfgEval>;
}
