#!/usr/bin/env python3
"""Semantics-preserving edits of /repo (selftest/benign/*.diff: renamed local, `< 1` for `== 0`, reordered independent
statements, `match` for `if`, swapped branches, attributes and comments). Every check must answer exit 0 (or 2), never 1.
usage: run_benign.py [name ...]"""
import json, os, shutil, subprocess, sys, tempfile
V = os.path.dirname(os.path.dirname(os.path.abspath(__file__)))
PROPS = {"N1-rename-local": ["C02", "C04"], "N2-less-than-one": ["C04", "C03"], "N3-inline-attrs-and-comments": ["C09"],
         "N5-reorder-independent": ["C04", "C20"], "N6-match-instead-of-if": ["C04", "C09"], "N7-not-empty": ["C07"]}
bad = 0
for n, props in PROPS.items():
    if sys.argv[1:] and n not in sys.argv[1:]:
        continue
    d = tempfile.mkdtemp(prefix="vxben_")
    try:
        for f in ("Cargo.toml", "Cargo.lock"):
            shutil.copy(os.path.join("/repo", f), d)
        shutil.copytree("/repo/src", os.path.join(d, "src"))
        shutil.copytree("/repo/examples", os.path.join(d, "examples"))
        r = subprocess.run(["patch", "-p1", "-s", "-i", os.path.join(V, "selftest", "benign", n + ".diff")], cwd=d, capture_output=True, text=True)
        if r.returncode != 0:
            print(n, "PATCH DOES NOT APPLY", r.stdout[:200]); bad += 1; continue
        for p in props:
            r = subprocess.run([os.path.join(V, "check"), p, "--repo", d], capture_output=True, text=True)
            last = (r.stdout.strip().splitlines() or [""])[-1][:160]
            print(("ok      " if r.returncode != 1 else "ALARM   ") + n, p, "exit", r.returncode, "|", last)
            bad += r.returncode == 1
            shutil.rmtree(os.path.join(V, "out", p + "_" + os.path.basename(d)), ignore_errors=True)
    finally:
        shutil.rmtree(d, ignore_errors=True)
sys.exit(1 if bad else 0)
