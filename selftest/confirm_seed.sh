#!/bin/bash
# usage: confirm_seed.sh <Cxx>   — confirms a sub-agent's seeded change myself:
#   worktree /tmp/wt_<Cxx> has the change applied; demo in /tmp/demo_<Cxx> depends on it by path.
# prints: tests with change, demo exit with change, demo exit without change; leaves the change applied; removes targets.
P=$1; WT=/tmp/wt_$P; D=/tmp/demo_$P
export CARGO_NET_OFFLINE=true
cd $WT || exit 9
git diff > /tmp/seed_$P.diff
echo "patch lines: $(wc -l < /tmp/seed_$P.diff)  files: $(git diff --name-only | tr '\n' ' ')"
echo "== tests with change (default features)"
cargo test --offline 2>&1 | grep -E "^test result|error(\[|:)" | head -5
echo "== build all-features with change"
cargo build --offline --all-features 2>&1 | grep -E "^error|Finished" | head -3
echo "== demo with change"
(cd $D && timeout 600 cargo run --offline >/tmp/demo_$P.with 2>&1; echo "exit $?"; tail -5 /tmp/demo_$P.with)
git apply -R /tmp/seed_$P.diff || exit 8
echo "== demo without change"
(cd $D && timeout 600 cargo run --offline >/tmp/demo_$P.without 2>&1; echo "exit $?"; tail -3 /tmp/demo_$P.without)
git apply /tmp/seed_$P.diff
rm -rf $WT/target $D/target
