#!/bin/bash
# usage: native_vs_patch.sh <patch.diff> <bin> [args...]  — runs one native replay binary against a scratch copy of /repo with the patch
PATCH=$1; BIN=$2; shift 2
D=$(mktemp -d /tmp/vxnat_XXXX)
cp -r /repo/src /repo/examples /repo/Cargo.toml /repo/Cargo.lock $D/ && (cd $D && git init -q . && git apply $PATCH) || { echo "patch failed"; rm -rf $D; exit 9; }
mkdir $D/replay && cp -r /verif/replay/src /verif/replay/Cargo.toml /verif/replay/Cargo.lock $D/replay/ 2>/dev/null
sed -i "s|path = \"/repo\"|path = \"$D\"|" $D/replay/Cargo.toml
(cd $D/replay && CARGO_NET_OFFLINE=true timeout 900 cargo run --offline --quiet --bin $BIN "$@" 2>&1 | grep -E "^VIOLATION|^OK|^error|panicked" -A3 | cut -c1-600; echo "exit ${PIPESTATUS[0]}")
rm -rf $D
