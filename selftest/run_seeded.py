#!/usr/bin/env python3
"""Runs ./check against independently seeded changes: each patch is applied to a scratch copy of /repo
(outside /repo and /verif, removed afterwards); /repo itself is never touched.
usage: run_seeded.py [--patch FILE --prop Cxx] | [seeded-id ...]   (default: all of /verif/seeded)"""
import json, os, shutil, subprocess, sys, tempfile
V = os.path.dirname(os.path.dirname(os.path.abspath(__file__)))
def run(patch, props, label):
    d = tempfile.mkdtemp(prefix="vxseed_")
    try:
        for f in ("Cargo.toml", "Cargo.lock"):
            shutil.copy(os.path.join("/repo", f), d)
        shutil.copytree("/repo/src", os.path.join(d, "src"))
        if os.path.exists("/repo/examples"):
            shutil.copytree("/repo/examples", os.path.join(d, "examples"))
        subprocess.run(["git", "init", "-q"], cwd=d)
        r = subprocess.run(["git", "apply", patch], cwd=d, capture_output=True, text=True)
        if r.returncode != 0:
            print(label, "PATCH DOES NOT APPLY", r.stderr[:200]); return
        for prop in props:
            r = subprocess.run([os.path.join(V, "check"), prop, "--repo", d], capture_output=True, text=True)
            lines = r.stdout.strip().splitlines()
            print(("CAUGHT  " if r.returncode == 1 else "MISSED  ") + label, prop, "exit", r.returncode, "|", (lines or [""])[0][:260])
            for l in lines[1:4]:
                print("          ", l[:260])
    finally:
        shutil.rmtree(d, ignore_errors=True)
        for prop in props:
            shutil.rmtree(os.path.join(V, "out", prop + "_" + os.path.basename(d)), ignore_errors=True)
args = sys.argv[1:]
if args and args[0] == "--patch":
    run(os.path.abspath(args[1]), [args[3]], os.path.basename(os.path.dirname(args[1])) or args[1])
else:
    for sid in sorted(os.listdir(os.path.join(V, "seeded"))):
        if args and sid not in args:
            continue
        meta = json.load(open(os.path.join(V, "seeded", sid, "meta.json")))
        run(os.path.join(V, "seeded", sid, "patch.diff"), meta.get("check_props", [meta["property"]]), sid)
