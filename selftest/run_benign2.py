#!/usr/bin/env python3
"""selftest/benign2/<Cxx>_R<k>.diff: 60 semantics-preserving refactorings written by independent sub-agents that saw only
the property text (each builds and passes the 44 + 151 tests). Every check must answer exit 0 or 2 on them, never 1.
usage: run_benign2.py [Cxx_Rk ...]   (runs up to 6 in parallel)"""
import concurrent.futures as cf, glob, os, shutil, subprocess, sys, tempfile
V = os.path.dirname(os.path.dirname(os.path.abspath(__file__)))
def one(path):
    name = os.path.basename(path)[:-5]
    prop = name.split("_")[0]
    d = tempfile.mkdtemp(prefix="vxben_")
    try:
        for f in ("Cargo.toml", "Cargo.lock"):
            shutil.copy(os.path.join("/repo", f), d)
        shutil.copytree("/repo/src", os.path.join(d, "src"))
        shutil.copytree("/repo/examples", os.path.join(d, "examples"))
        subprocess.run(["git", "init", "-q"], cwd=d)
        if subprocess.run(["git", "apply", path], cwd=d, capture_output=True).returncode != 0:
            return name, 9, "PATCH DOES NOT APPLY"
        r = subprocess.run([os.path.join(V, "check"), prop, "--repo", d], capture_output=True, text=True)
        return name, r.returncode, (r.stdout.strip().splitlines() or [""])[-1][:150]
    finally:
        shutil.rmtree(d, ignore_errors=True)
        shutil.rmtree(os.path.join(V, "out", prop + "_" + os.path.basename(d)), ignore_errors=True)
paths = sorted(glob.glob(os.path.join(V, "selftest", "benign2", "*.diff")))
if sys.argv[1:]:
    paths = [p for p in paths if os.path.basename(p)[:-5] in sys.argv[1:]]
counts = {0: 0, 1: 0, 2: 0, 9: 0}
with cf.ThreadPoolExecutor(max_workers=6) as ex:
    for name, rc, last in ex.map(one, paths):
        counts[rc] = counts.get(rc, 0) + 1
        print(("ALARM   " if rc == 1 else "ok      ") + name, "exit", rc, "|", last, flush=True)
print("summary: exit0=%d exit2=%d ALARMS=%d unapplied=%d" % (counts[0], counts[2], counts[1], counts[9]))
sys.exit(1 if counts[1] else 0)
