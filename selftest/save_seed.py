#!/usr/bin/env python3
"""usage: save_seed.py <Sxx-Cyy-slug> <Cyy> <needs_to_manifest> <detected_by> [also]
Saves a confirmed seeded change: /tmp/seed_<Cyy>.diff -> seeded/<id>/patch.diff, /tmp/demo_<Cyy> (without target, patch.diff) -> demo/."""
import json, os, shutil, sys
V = os.path.dirname(os.path.dirname(os.path.abspath(__file__)))
sid, prop, needs, det = sys.argv[1:5]
also = sys.argv[5] if len(sys.argv) > 5 else ""
d = os.path.join(V, "seeded", sid)
os.makedirs(d, exist_ok=True)
shutil.copy(f"/tmp/seed_{prop}.diff", os.path.join(d, "patch.diff"))
demo = os.path.join(d, "demo")
shutil.rmtree(demo, ignore_errors=True)
shutil.copytree(f"/tmp/demo_{prop}", demo, ignore=shutil.ignore_patterns("target", "patch.diff", "*.with", "*.without"))
# the demo depends on the crate by path: make it relative to a checkout next to it
ct = os.path.join(demo, "Cargo.toml")
s = open(ct).read().replace(f"/tmp/wt_{prop}", "..")
open(ct, "w").write(s)
w = open(f"/tmp/demo_{prop}.with").read().strip().splitlines()[-3:]
meta = {"id": sid, "property": prop, "origin": "independent sub-agent given only the property text and a scratch worktree",
        "needs_to_manifest": needs,
        "confirmed": {"existing_tests_with_change": "cargo test --offline: 44 passed", "demo_with_change": "non-zero exit: " + " | ".join(w)[:300], "demo_without_change": "exit 0"},
        "detected_by": det,
        "how_to_run_demo": "copy demo/ into a checkout with the patch applied (fn_graph = { path = \"..\" }), cargo run --offline"}
if also:
    meta["confirmed"]["also"] = also
json.dump(meta, open(os.path.join(d, "meta.json"), "w"), indent=1)
print("saved", d)
