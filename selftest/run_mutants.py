#!/usr/bin/env python3
"""Generator self-test (DESIGN §3.3): applies deliberate breaking edits to a scratch copy of /repo
(outside /repo and /verif, removed afterwards) and reports which check catches which.
usage: run_mutants.py [mutant-id ...]   (default: all in mutants.json)
Never decides a property; measures the strength of the contracts."""
import json, os, shutil, subprocess, sys, tempfile
V = os.path.dirname(os.path.dirname(os.path.abspath(__file__)))
muts = json.load(open(os.path.join(V, "selftest", "mutants.json")))
sel = sys.argv[1:]
results = []
for m in muts:
    if sel and m["id"] not in sel:
        continue
    d = tempfile.mkdtemp(prefix="vxmut_")
    try:
        for f in ("Cargo.toml", "Cargo.lock"):
            shutil.copy(os.path.join("/repo", f), d)
        shutil.copytree("/repo/src", os.path.join(d, "src"))
        if os.path.exists("/repo/examples"):
            shutil.copytree("/repo/examples", os.path.join(d, "examples"))
        p = os.path.join(d, m["file"])
        s = open(p).read()
        if m["old"] not in s:
            results.append((m["id"], "STALE (old text not found)"))
            print(m["id"], "STALE"); continue
        s = s.replace(m["old"], m["new"], 1)
        open(p, "w").write(s)
        row = {}
        for prop in m["props"]:
            r = subprocess.run([os.path.join(V, "check"), prop, "--repo", d], capture_output=True, text=True)
            first = (r.stdout.strip().splitlines() or [""])[0]
            row[prop] = (r.returncode, first[:200])
        # `"expect": "undecided"`: an edit that leaves the modelled configuration unchanged (e.g. code under cfg(debug_assertions))
        # must make the check answer UNDECIDED (exit 2) - never OK
        want = 2 if m.get("expect") == "undecided" else 1
        ok = all(rc == want for rc, _ in row.values())
        print((("CAUGHT  " if want == 1 else "REFUSED ") if ok else "MISSED  ") + m["id"], json.dumps(row))
        results.append((m["id"], row))
    finally:
        shutil.rmtree(d, ignore_errors=True)
        for prop in m["props"]:
            shutil.rmtree(os.path.join(V, "out", prop + "_" + os.path.basename(d)), ignore_errors=True)
json.dump(results, open(os.path.join(V, "out", "selftest_results.json"), "w"), indent=1)
