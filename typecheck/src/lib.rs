//! C19: the where-clauses are the contract; a successful `cargo check` means rustc's trait solver
//! discharged every auto-trait obligation for ALL instantiations of F / Fut / E.
#![allow(dead_code, clippy::all)]
use fn_graph::{FnGraph, FnRef, StreamOpts};
use std::future::Future;
use std::ops::ControlFlow;

fn assert_send<T: Send>(_: &T) {}
fn assert_sync<T: Sync>(_: &T) {}
fn assert_send_ty<T: Send>() {}
fn assert_sync_ty<T: Sync>() {}

/// C19.graph-send-sync
pub fn graph_send_sync<F: Send + Sync>() {
    assert_send_ty::<FnGraph<F>>();
    assert_sync_ty::<FnGraph<F>>();
}

/// C19.fnref-send
pub fn fnref_send<'a, F: Send + Sync + 'a>() {
    assert_send_ty::<FnRef<'a, F>>();
}

/// C19.stream-send
pub fn stream_send<F: Send + Sync>(g: &FnGraph<F>) {
    let s = g.stream();
    assert_send(&s);
    let s = g.stream_with(StreamOpts::default());
    assert_send(&s);
}

#[cfg(not(feature = "interruptible"))]
pub mod default_features {
    use super::*;

    /// C19.for_each_concurrent-send
    pub fn for_each_concurrent_send<'f, F, Fut>(g: &'f FnGraph<F>, f: fn(&'f F) -> Fut)
    where
        F: Send + Sync + 'f,
        Fut: Future<Output = ()> + Send + 'f,
    {
        let fut = g.for_each_concurrent(None, f);
        assert_send(&fut);
        let fut = g.for_each_concurrent_with(Some(2), StreamOpts::default(), f);
        assert_send(&fut);
    }

    /// C19.for_each_concurrent_mut-send
    pub fn for_each_concurrent_mut_send<F, Fut>(g: &mut FnGraph<F>, f: fn(&mut F) -> Fut)
    where
        F: Send + Sync,
        Fut: Future<Output = ()> + Send,
    {
        {
            let fut = g.for_each_concurrent_mut(None, f);
            assert_send(&fut);
        }
        {
            let fut = g.for_each_concurrent_mut_with(Some(2), StreamOpts::default(), f);
            assert_send(&fut);
        }
    }

    /// C19.try_for_each_concurrent-send
    pub fn try_for_each_concurrent_send<'f, F, Fut, E>(g: &'f FnGraph<F>, f: fn(&'f F) -> Fut)
    where
        F: Send + Sync + 'f,
        E: std::fmt::Debug + Send,
        Fut: Future<Output = Result<(), E>> + Send + 'f,
    {
        let fut = g.try_for_each_concurrent(None, f);
        assert_send(&fut);
        let fut = g.try_for_each_concurrent_with(Some(2), StreamOpts::default(), f);
        assert_send(&fut);
    }

    /// C19.try_for_each_concurrent_mut-send
    pub fn try_for_each_concurrent_mut_send<F, Fut, E>(g: &mut FnGraph<F>, f: fn(&mut F) -> Fut)
    where
        F: Send + Sync,
        E: std::fmt::Debug + Send,
        Fut: Future<Output = Result<(), E>> + Send,
    {
        {
            let fut = g.try_for_each_concurrent_mut(None, f);
            assert_send(&fut);
        }
        {
            let fut = g.try_for_each_concurrent_mut_with(Some(2), StreamOpts::default(), f);
            assert_send(&fut);
        }
    }

    /// C19.try_for_each_concurrent_control-send
    pub fn try_for_each_concurrent_control_send<'f, F, Fut, E>(g: &'f FnGraph<F>, f: fn(&'f F) -> Fut)
    where
        F: Send + Sync + 'f,
        E: std::fmt::Debug + Send,
        Fut: Future<Output = ControlFlow<E, ()>> + Send + 'f,
    {
        let fut = g.try_for_each_concurrent_control(None, f);
        assert_send(&fut);
        let fut = g.try_for_each_concurrent_control_with(Some(2), StreamOpts::default(), f);
        assert_send(&fut);
    }

    /// C19.try_for_each_concurrent_control_mut-send
    pub fn try_for_each_concurrent_control_mut_send<F, Fut, E>(g: &mut FnGraph<F>, f: fn(&mut F) -> Fut)
    where
        F: Send + Sync,
        E: std::fmt::Debug + Send,
        Fut: Future<Output = ControlFlow<E, ()>> + Send,
    {
        {
            let fut = g.try_for_each_concurrent_control_mut(None, f);
            assert_send(&fut);
        }
        {
            let fut = g.try_for_each_concurrent_control_mut_with(Some(2), StreamOpts::default(), f);
            assert_send(&fut);
        }
    }
}

/// vacuity guard: this must FAIL to compile when the feature is on
#[cfg(feature = "negative_control")]
pub fn negative_control() {
    assert_send_ty::<std::rc::Rc<()>>();
}
