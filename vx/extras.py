"""Extra engines: rustc trait solver (C19), Kani scalar harnesses, bounded audits, replay search."""
import json
import os
import re
import shutil
import subprocess
import time

VERIF = os.path.dirname(os.path.dirname(os.path.abspath(__file__)))

ENV = dict(os.environ, CARGO_NET_OFFLINE="true")


def _crate_for(repo, name, outdir):
    """The harness crates name /repo by path; for a scratch repo a copy with the path substituted is used."""
    src = os.path.join(VERIF, name)
    if repo == "/repo":
        return src
    dst = os.path.join(outdir, name + "_crate")
    if os.path.exists(dst):
        shutil.rmtree(dst)
    shutil.copytree(src, dst, ignore=shutil.ignore_patterns("target"))
    p = os.path.join(dst, "Cargo.toml")
    s = open(p).read().replace('path = "/repo"', f'path = "{repo}"')
    open(p, "w").write(s)
    return dst


def _cargo_check(crate, features, target_dir):
    cmd = ["cargo", "check", "--offline", "--message-format=json", "--target-dir", target_dir]
    if features:
        cmd += ["--features", ",".join(features)]
    r = subprocess.run(cmd, cwd=crate, env=ENV, capture_output=True, text=True, timeout=1200)
    msgs = []
    for l in r.stdout.splitlines():
        try:
            d = json.loads(l)
        except ValueError:
            continue
        if d.get("reason") == "compiler-message" and d["message"]["level"] == "error":
            msgs.append(d)
    return r.returncode, msgs, "cd " + crate + " && CARGO_NET_OFFLINE=true " + " ".join(cmd), r.stderr


def _typecheck_obligations(crate):
    """`/// C19.name` doc line followed by `pub fn` => (name, first line, last line)"""
    src = open(os.path.join(crate, "src/lib.rs")).read().split("\n")
    obs = []
    i = 0
    while i < len(src):
        m = re.match(r'\s*/// (C\d+\.[\w-]+)', src[i])
        if m:
            # function extent: until the next line that is exactly a closing brace at the fn's indent
            j = i + 1
            indent = len(src[j]) - len(src[j].lstrip())
            k = j
            while k < len(src) and not (src[k].startswith(" " * indent + "}") and len(src[k].rstrip()) == indent + 1):
                k += 1
            cfg_interruptible_off = any("not(feature = \"interruptible\")" in src[x] for x in range(max(0, i - 60), i)) and indent > 0
            obs.append({"name": m.group(1), "lo": i + 1, "hi": k + 1, "default_only": indent > 0})
            i = k
        i += 1
    return obs


def run_typecheck(prop, tier, repo, outdir, seed):
    t0 = time.time()
    res = {"engine": "rustc", "unit": "U14", "features": ["async"], "violations": [], "undecided": [], "obligations": [], "cmds": [],
           "trusted": ["rustc's trait solver (auto-trait obligations are decided by the compiler for all instantiations of the generic parameters)",
                       "typecheck/src/lib.rs: the where-clauses of each assertion function are the contract (F: Send + Sync, caller futures: Send)"],
           "bounded_checks": []}
    crate = _crate_for(repo, "typecheck", outdir)
    tdir = os.path.join(VERIF, "typecheck", "target") if repo == "/repo" else os.path.join(outdir, "typecheck_target")
    obs = _typecheck_obligations(crate)
    for fs, label in (([], "async"), (["interruptible"], "async+interruptible")):
        rc, msgs, cmd, stderr = _cargo_check(crate, fs, tdir)
        res["cmds"].append(cmd)
        failed = {}
        for d in msgs:
            m = d["message"]
            code = (m.get("code") or {}).get("code")
            prim = [s for s in m["spans"] if s["is_primary"]]
            in_harness = [s for s in prim if s["file_name"].endswith("src/lib.rs") and "typecheck" in os.path.abspath(os.path.join(crate, s["file_name"]))]
            is_auto_trait = code == "E0277" and ("cannot be sent between threads" in m["message"] or "cannot be shared between threads" in m["message"]) \
                or ("future cannot be sent between threads" in m["message"]) or ("cannot be sent between threads safely" in m.get("rendered", ""))
            if in_harness and is_auto_trait:
                ln = in_harness[0]["line_start"]
                for o in obs:
                    if o["lo"] <= ln <= o["hi"]:
                        failed[o["name"]] = m
            else:
                res["undecided"].append(f"typecheck[{label}]:front-end:{(m['message'])[:140]}")
        if rc != 0 and not msgs:
            res["undecided"].append(f"typecheck[{label}]:cargo-failed:{stderr[-200:]}")
        for o in obs:
            if fs and o["default_only"]:
                continue
            oid = f"U14/{o['name']}[{label}]"
            st = "discharged"
            if o["name"] in failed:
                st = "FAILED"
                m = failed[o["name"]]
                res["violations"].append({"oid": oid, "kind": "auto-trait", "named": True, "message": m["message"], "rendered": m.get("rendered", ""),
                                          "where": {"k": "typecheck", "fn": o["name"], "file": "typecheck/src/lib.rs", "line": o["lo"]},
                                          "counterexample": {"kind": "compile-error", "cmd": cmd, "note": "the rustc diagnostic names the non-Send/Sync type captured by the value"}})
            elif rc != 0:
                st = "undischarged"
            res["obligations"].append({"id": oid, "kind": "auto-trait", "status": st, "weight": 1, "unit": "U14", "features": label, "backend": "rustc"})
    # vacuity guard: the negative control must fail to compile
    rc, msgs, cmd, _ = _cargo_check(crate, ["negative_control"], tdir)
    res["cmds"].append(cmd)
    neg_ok = rc != 0 and any("Rc<()>" in d["message"]["message"] for d in msgs)
    res["canaries"] = {"expected": 1, "failed_as_expected": 1 if neg_ok else 0, "vacuous": [] if neg_ok else ["typecheck:negative_control"]}
    if not neg_ok:
        res["undecided"].append("typecheck:vacuous:negative-control-compiled")
    res["wall"] = time.time() - t0
    res["functions"] = {}
    res["ms"] = 0
    res["assumption_hits"] = {}
    return res


LIMIT_SITES = [
    # (fn that contains the call, impl, callee, expected token text of argument 0)
    ("for_each_concurrent_internal", "FnGraph", "for_each_concurrent", "limit"),
    ("for_each_concurrent_mut_internal", "FnGraph", "for_each_concurrent", "limit"),
    ("try_for_each_concurrent_internal", "FnGraph", "for_each_concurrent", "limit"),
    ("try_for_each_concurrent_mut_internal", "FnGraph", "for_each_concurrent", "limit"),
    ("for_each_concurrent", "FnGraph", "for_each_concurrent_internal", "limit"),
    ("for_each_concurrent_with", "FnGraph", "for_each_concurrent_internal", "limit"),
    ("for_each_concurrent_mut", "FnGraph", "for_each_concurrent_mut_internal", "limit"),
    ("for_each_concurrent_mut_with", "FnGraph", "for_each_concurrent_mut_internal", "limit"),
    ("try_for_each_concurrent", "FnGraph", "try_for_each_concurrent_internal", "limit"),
    ("try_for_each_concurrent_with", "FnGraph", "try_for_each_concurrent_internal", "limit"),
    ("try_for_each_concurrent_mut", "FnGraph", "try_for_each_concurrent_mut_internal", "limit"),
    ("try_for_each_concurrent_mut_with", "FnGraph", "try_for_each_concurrent_mut_internal", "limit"),
    ("try_for_each_concurrent_control", "FnGraph", "try_for_each_concurrent_internal", "limit"),
    ("try_for_each_concurrent_control_with", "FnGraph", "try_for_each_concurrent_internal", "limit"),
    ("try_for_each_concurrent_control_mut", "FnGraph", "try_for_each_concurrent_mut_internal", "limit"),
    ("try_for_each_concurrent_control_mut_with", "FnGraph", "try_for_each_concurrent_mut_internal", "limit"),
]

def _opts_sites():
    A, AI = ["async"], ["async", "interruptible"]
    out = []
    for base in ("fold_async", "fold_async_mut", "try_fold_async", "try_fold_async_mut"):
        out.append((base, base + "_internal", 1, "StreamOpts::default()", None, 0, A, ("C02", "C08")))
        out.append((base + "_with", base + "_internal", 1, "opts", "opts", 0, A, ("C02", "C08")))
    for base in ("for_each_concurrent", "for_each_concurrent_mut", "try_for_each_concurrent", "try_for_each_concurrent_mut"):
        out.append((base, base + "_internal", 1, "StreamOpts::default()", None, 0, A, ("C02", "C08")))
        out.append((base + "_with", base + "_internal", 1, "opts", "opts", 0, A, ("C02", "C08")))
    for (w, internal) in (("try_for_each_concurrent_control", "try_for_each_concurrent_internal"), ("try_for_each_concurrent_control_mut", "try_for_each_concurrent_mut_internal")):
        out.append((w, internal, 1, "StreamOpts::default()", None, 0, A, ("C02", "C08")))
        out.append((w + "_with", internal, 1, "opts", "opts", 0, A, ("C02", "C08")))
    out.append(("stream", "stream_internal", 0, "StreamOrder::Forward", None, 0, A, ("C02",)))
    out.append(("stream_with", "stream_internal", 0, "stream_order", "stream_order", 1, A, ("C02",)))
    out.append(("stream_with_interruptible", "stream_internal", 0, "stream_order", "stream_order", 1, AI, ("C02", "C08")))
    out.append(("stream_with_interruptible", "interruptible_with", 0, "interruptibility_state", "interruptibility_state", 1, AI, ("C08",)))
    out.append(("stream_interruptible", "stream_with_interruptible", 0, "StreamOpts::default()", None, 0, AI, ("C08",)))
    for f in ("fold_async_internal", "fold_async_mut_internal", "try_fold_async_internal", "try_fold_async_mut_internal",
              "for_each_concurrent_internal", "for_each_concurrent_mut_internal", "try_for_each_concurrent_internal", "try_for_each_concurrent_mut_internal"):
        out.append((f, "poll_and_track_fn_ready", 2, "interruptibility_state", "interruptibility_state", 1, AI, ("C08",)))
        out.append((f, "poll_and_track_fn_ready", 3, "interrupted_next_item_include", "interrupted_next_item_include", 1, AI, ("C08",)))
    return out


OPTS_SITES = _opts_sites()

INTERIOR_MUT = re.compile(r'\b(Cell|RefCell|UnsafeCell|Mutex|RwLock|Atomic\w*|OnceCell|OnceLock|LazyCell|LazyLock)\b')


def run_syntactic(prop, repo, outdir):
    """Syntactic side conditions decided on the AST by the extractor (NOT deductive proof; reported as such)."""
    import sys
    sys.path.insert(0, os.path.join(VERIF, "vx"))
    from assemble import run_extract, Undecided
    t0 = time.time()
    res = {"engine": "syntactic", "unit": "SYN", "features": ["async"], "violations": [], "undecided": [], "obligations": [], "cmds": ["tools/vx-extract (call_arg / struct items)"],
           "trusted": ["syntactic side conditions are decided by tools/vx-extract on the syn AST of /repo/src (labelled syntactic, not deductive)"],
           "bounded_checks": [], "canaries": {"expected": 0, "failed_as_expected": 0, "vacuous": []}, "functions": {}, "ms": 0, "assumption_hits": {}}
    if prop == "C10":
        for (fn, impl, callee, want) in LIMIT_SITES:
            oid = f"SYN/{fn}/C10.limit-argument-forwarded-unmodified-to-{callee}"
            try:
                ex = run_extract(repo, ["async"], [{"name": "x", "file": "src/fn_graph.rs", "kind": "call_arg", "ident": fn, "impl_self": impl, "call": callee, "nth": 0, "arg": 0}], outdir)
                got = ex["x"]["text"]
                st = "discharged" if got == want else "FAILED"
                if st == "discharged":
                    # the argument text only means the caller's value when the name still denotes the parameter
                    bx = run_extract(repo, ["async"], [{"name": "b", "file": "src/fn_graph.rs", "kind": "binders", "ident": fn, "impl_self": impl, "binder": want}], outdir)
                    b = json.loads(bx["b"]["text"])
                    if not b["param"] or b["param_mut"] or b["rebinds"] or b["assigns"]:
                        st = "undischarged"
                        res["undecided"].append(f"syntactic:{fn}:`{want}` is rebound or assigned before it reaches {callee} (param={b['param']} mut={b['param_mut']} rebinds={b['rebinds']} assigns={b['assigns']}): forwarding cannot be decided syntactically")
                if st == "FAILED":
                    res["violations"].append({"oid": oid, "kind": "syntactic", "named": True, "message": f"argument 0 of {callee} in {fn} is `{got}`, expected `{want}`",
                                              "rendered": f"{fn}: .{callee}({got}, ..) - the concurrency limit given by the caller is not what reaches the combinator", "where": {"k": "syntactic", "fn": fn, "file": "src/fn_graph.rs", "span": ex["x"]["span"]}})
            except Undecided as u:
                st = "undischarged"
                res["undecided"].append(f"syntactic:{fn}:{u.reason[:120]}")
            res["obligations"].append({"id": oid, "kind": "syntactic", "status": st, "weight": 1, "unit": "SYN", "features": "async", "backend": "syntactic"})
    if prop in ("C02", "C08"):
        for (fn, callee, argi, want, binder, nbind, feats, props) in OPTS_SITES:
            if prop not in props:
                continue
            oid = f"SYN/{fn}/{prop}.argument-{argi}-of-{callee}-is-{want.replace(' ', '').replace('::', '-').replace('()', '')}"
            try:
                ex = run_extract(repo, feats, [{"name": "x", "file": "src/fn_graph.rs", "kind": "call_arg", "ident": fn, "impl_self": "FnGraph", "call": callee, "nth": 0, "arg": argi}], outdir)
                got = ex["x"]["text"]
                st = "discharged" if got.replace(" ", "") == want.replace(" ", "") else "FAILED"
                if st == "FAILED":
                    res["violations"].append({"oid": oid, "kind": "syntactic", "named": True, "message": f"argument {argi} of {callee} in {fn} is `{got}`, expected `{want}`",
                                              "rendered": f"{fn}: {callee}(.., {got}, ..) - the caller's stream options are not what reaches the run", "where": {"k": "syntactic", "fn": fn, "file": "src/fn_graph.rs", "span": ex["x"]["span"]}})
                elif binder:
                    bx = run_extract(repo, feats, [{"name": "b", "file": "src/fn_graph.rs", "kind": "binders", "ident": fn, "impl_self": "FnGraph", "binder": binder}], outdir)
                    b = json.loads(bx["b"]["text"])
                    if b["param_mut"] or b["rebinds"] != nbind or b["assigns"]:
                        st = "undischarged"
                        res["undecided"].append(f"syntactic:{fn}:`{binder}` is bound {b['rebinds']} times (expected {nbind}) or assigned before it reaches {callee}: forwarding cannot be decided syntactically")
            except Undecided as u:
                st = "undischarged"
                res["undecided"].append(f"syntactic:{fn}:{u.reason[:120]}")
            res["obligations"].append({"id": oid, "kind": "syntactic", "status": st, "weight": 1, "unit": "SYN", "features": "+".join(feats), "backend": "syntactic"})
    if prop == "C17":
        # the round-trip clause rests on serde's derive being its own inverse; that assumption only applies when the three
        # types that end up in the serialised form use the PLAIN derives: no `serde(..)` attribute, no hand-written impl
        for (f, ident) in (("src/graph_info.rs", "GraphInfo"), ("src/edge.rs", "Edge"), ("src/fn_id_inner.rs", "FnIdInner")):
            oid = f"SYN/{ident}/C17.serialised-with-the-plain-serde-derives--no-serde-attribute--no-hand-written-impl"
            try:
                ex = run_extract(repo, ["async", "graph_info"], [{"name": "x", "file": f, "kind": "serde_attrs", "ident": ident}], outdir)
                j = json.loads(ex["x"]["text"])
                st = "discharged"
                if "Serialize" not in j["derives"] or "Deserialize" not in j["derives"]:
                    st = "undischarged"
                    res["undecided"].append(f"syntactic:{ident}:Serialize/Deserialize are not both derived ({j['derives']}, manual impls {j['manual_impls']}): the round-trip assumption does not apply")
                elif j["serde_attrs"] or j["manual_impls"]:
                    st = "undischarged"
                    res["undecided"].append(f"syntactic:{ident}:custom serde behaviour ({(j['serde_attrs'] + j['manual_impls'])[0][:120]}): the round-trip assumption about plain derives does not apply")
            except Undecided as u:
                st = "undischarged"
                res["undecided"].append(f"syntactic:{ident}:{u.reason[:120]}")
            res["obligations"].append({"id": oid, "kind": "syntactic", "status": st, "weight": 1, "unit": "SYN", "features": "async+graph_info", "backend": "syntactic"})
    if prop == "C09":
        # the four for_each variants read the shared counter through an RwLock: that the outcome state is computed from
        # THAT read (made after the stream ended: it is part of the extracted epilogue, unit U18) is a syntactic condition
        for fn in ("for_each_concurrent_internal", "for_each_concurrent_mut_internal", "try_for_each_concurrent_internal", "try_for_each_concurrent_mut_internal"):
            oid = f"SYN/{fn}/C09.outcome-state-is-computed-from-the-shared-remaining-counter"
            want = "* fns_remaining . read () . await"
            try:
                ex = run_extract(repo, ["async"], [{"name": "x", "file": "src/fn_graph.rs", "kind": "call_arg", "ident": fn, "impl_self": "FnGraph", "call": "stream_outcome_state_after_stream", "nth": 0, "arg": 0}], outdir)
                got = ex["x"]["text"]
                st = "discharged" if got.replace(" ", "") == want.replace(" ", "") else "FAILED"
                if st == "FAILED":
                    res["violations"].append({"oid": oid, "kind": "syntactic", "named": True, "message": f"argument of stream_outcome_state_after_stream in {fn} is `{got}`, expected `*fns_remaining.read().await`",
                                              "rendered": f"{fn}: stream_outcome_state_after_stream({got})", "where": {"k": "syntactic", "fn": fn, "file": "src/fn_graph.rs", "span": ex["x"]["span"]}})
            except Undecided as u:
                st = "undischarged"
                res["undecided"].append(f"syntactic:{fn}:{u.reason[:120]}")
            res["obligations"].append({"id": oid, "kind": "syntactic", "status": st, "weight": 1, "unit": "SYN", "features": "async", "backend": "syntactic"})
    if prop in ("C15", "C20"):
        for (f, ident) in (("src/fn_graph.rs", "FnGraph"), ("src/edge_counts.rs", "EdgeCounts")):
            oid = f"SYN/{ident}/{prop}.no-interior-mutability-in-the-fields-of-{ident}"
            try:
                ex = run_extract(repo, ["async"], [{"name": "x", "file": f, "kind": "struct", "ident": ident}], outdir)
                m = INTERIOR_MUT.search(ex["x"]["text"])
                st = "FAILED" if m else "discharged"
                if m:
                    res["violations"].append({"oid": oid, "kind": "syntactic", "named": True, "message": f"field type of {ident} mentions {m.group(1)}", "rendered": ex["x"]["text"],
                                              "where": {"k": "syntactic", "fn": ident, "file": f, "span": ex["x"]["span"]}})
            except Undecided as u:
                st = "undischarged"
                res["undecided"].append(f"syntactic:{ident}:{u.reason[:120]}")
            res["obligations"].append({"id": oid, "kind": "syntactic", "status": st, "weight": 1, "unit": "SYN", "features": "async", "backend": "syntactic"})
    if prop in ("C15", "C20"):
        # no global mutable state: per-run state can only be per run when the crate has no `static` at all
        oid = f"SYN/crate/{prop}.no-static-or-thread-local-state-in-the-crate"
        st = "discharged"
        try:
            todo, seen, found = [("src/lib.rs", "src")], set(), []
            while todo:
                f, d = todo.pop()
                if f in seen:
                    continue
                seen.add(f)
                ex = run_extract(repo, ["async", "interruptible", "graph_info"], [{"name": "x", "file": f, "kind": "statics"}], outdir)
                j = json.loads(ex["x"]["text"])
                found += [f"{f}: {x}" for x in j["statics"]]
                for m in j["mods"]:
                    base = d if os.path.basename(f) in ("lib.rs", "mod.rs") else os.path.join(d, os.path.splitext(os.path.basename(f))[0])
                    for cand, nd in ((os.path.join(base, m + ".rs"), base), (os.path.join(base, m, "mod.rs"), os.path.join(base, m))):
                        if os.path.exists(os.path.join(repo, cand)):
                            todo.append((cand, nd))
                            break
                    else:
                        raise Undecided("anchor-lost", f"module {m} of {f} not found")
            # an immutable static of a plain type is a constant, not state; a type the scan cannot see through is undecided
            PRIMS = {"static", "str", "bool", "char", "u8", "u16", "u32", "u64", "u128", "usize", "i8", "i16", "i32", "i64", "i128", "isize", "f32", "f64"}
            def classify_static(entry):
                x = entry.split(": ", 1)[1]            # drop the file prefix
                if x.startswith("static mut ") or INTERIOR_MUT.search(x):
                    return "state"
                if x.startswith("static ") and ": " in x and all(w in PRIMS or w.isdigit() for w in re.findall(r"\w+", x.split(": ", 1)[1])):
                    return "constant"
                return "unknown"
            kinds = {x: classify_static(x) for x in found}
            unknown = [x for x in found if kinds[x] == "unknown"]
            found = [x for x in found if kinds[x] == "state"]
            if unknown and not found:
                raise Undecided("syntactic-unknown", "static of a type the scan cannot classify: " + unknown[0][:100])
            if found:
                st = "FAILED"
                res["violations"].append({"oid": oid, "kind": "syntactic", "named": True, "message": "global state in the crate: " + "; ".join(found)[:400],
                                          "rendered": "\n".join(found), "where": {"k": "syntactic", "fn": "crate", "file": found[0].split(":")[0]}})
            res["functions"]["crate-module-tree"] = {"repo_file": "src/lib.rs", "repo_span": [1, 1], "sha256": "", "rules": ["statics scan over %d files" % len(seen)], "under_contract": False, "smt_ms": 0}
        except Undecided as u:
            st = "undischarged"
            res["undecided"].append(f"syntactic:statics:{u.reason[:120]}")
        res["obligations"].append({"id": oid, "kind": "syntactic", "status": st, "weight": 1, "unit": "SYN", "features": "async", "backend": "syntactic"})
    # The syntactic side conditions are SUFFICIENT conditions read off the AST: when one holds, the clause it stands for is
    # confirmed; when it does not, nothing is refuted (`.for_each_concurrent(max_in_flight, ..)` with
    # `let max_in_flight = limit.into();` forwards the limit just as well). A mismatch therefore makes the property
    # UNDECIDED, and the bounded native search on the real crate decides by example.
    for v in res["violations"]:
        res["undecided"].append(f"syntactic-condition-not-confirmed:{v['oid']}: {v['message'][:220]}")
    res["violations"] = []
    for o in res["obligations"]:
        if o["status"] == "FAILED":
            o["status"] = "undischarged"
    res["wall"] = time.time() - t0
    return res


def run(prop, tier, repo, outdir, seed):
    out = []
    if prop in ("C02", "C08", "C09", "C10", "C15", "C17", "C20"):
        out.append(run_syntactic(prop, repo, outdir))
    if prop in ("C19", "C20"):
        r = run_typecheck(prop, tier, repo, outdir, seed)
        if prop == "C20":
            # C20 only needs FnGraph: Sync (runs on different threads share &FnGraph)
            r["obligations"] = [o for o in r["obligations"] if "graph-send-sync" in o["id"]]
            r["violations"] = [v for v in r["violations"] if "graph-send-sync" in v["oid"]]
        out.append(r)
    return out


REPLAY_BINS = {
    "C05": [("c05_stall", []), ("c_run", [], ["C05"])],
    "C04": [("c04_empty", []), ("c_sched", [], ["C04"]), ("c_sched", [], ["C04", "--exhaustive"]), ("c_run", [], ["C04"]), ("c05_stall", []), ("c08_interrupt", ["--features", "interruptible"]), ("c16_edges", [])],
    "C02": [("c_sched", [], ["C02"]), ("c_sched", [], ["C02", "--exhaustive"]), ("c_run", [], ["C02"]), ("c05_stall", [], ["C02"]), ("c16_edges", [])],
    "C03": [("c_sched", [], ["C03"]), ("c_sched", [], ["C03", "--exhaustive"]), ("c_run", [], ["C03"]), ("c05_stall", [], ["C03"]), ("c16_edges", [])],
    "C07": [("c_run", [], ["C07"])],
    "C08": [("c08_interrupt", ["--features", "interruptible"])],
    "C09": [("c_run", [], ["C09"]), ("c08_interrupt", ["--features", "interruptible"], ["C09"])],
    "C10": [("c_sched", [], ["C10"]), ("c_sched", [], ["C10", "--exhaustive"]), ("c_run", [], ["C10"])],
    "C18": [("c18_pops", ["--features", "hooks"])],
    "C13": [("c13_ranks", [])],
    "C11": [("c11_build", [])],
    "C01": [("c16_edges", []), ("c11_build", []), ("c_sched", [], ["C01"]), ("c_sched", [], ["C01", "--exhaustive"]), ("c_run", [], ["C01"])],
    "C06": [("c11_build", []), ("c_sched", [], ["C06"]), ("c_sched", [], ["C06", "--exhaustive"])],
    "C12": [("c11_build", [])],
    "C14": [("c14_seq", [])],
    "C15": [("c_sched", [], ["C15"])],
    "C16": [("c16_edges", [])],
    "C17": [("c17_info", ["--features", "graph_info"])],
    "C20": [("c_sched", [], ["C20"]), ("c_run", [], ["C20"])],
}


# a second build profile for the native harnesses: debug assertions and overflow checks off, as in `--release`
NO_DEBUG_PROFILE = ["--config", "profile.dev.debug-assertions=false", "--config", "profile.dev.overflow-checks=false"]

# the builder-side harnesses also exist in /verif/replay_noasync: the SAME sources compiled against fn_graph with
# `default-features = false` (no `async` feature: FnGraph has no edge counts, build() compiles differently)
NOASYNC_BINS = {"C11": ["c11_build"], "C12": ["c11_build"], "C13": ["c13_ranks"], "C14": ["c14_seq"], "C16": ["c16_edges"]}


# ... and in /verif/replay_fnmeta: compiled against fn_graph WITH `fn_meta` (DataAccessDyn comes from the blanket impl over FnMetaDyn)
FNMETA_BINS = {"C01": [("c11_build", []), ("c_sched", ["C01"])], "C06": [("c11_build", []), ("c_sched", ["C06"])], "C11": [("c11_build", [])], "C12": [("c11_build", [])]}


def _native_jobs(prop, repo, outdir, thorough=False):
    """(label, cwd, cmd) of every native run registered for the property: each harness in the dev profile, then in the
    profile without debug assertions, then (builder side) against the crate without its `async` feature."""
    jobs = []
    crate = _crate_for(repo, "replay", outdir)
    tdir = os.path.join(VERIF, "replay", "target") if repo == "/repo" else os.path.join(outdir, "replay_target")
    for prof, plabel in (([], ""), (NO_DEBUG_PROFILE, ", build without debug assertions")):
        for b in REPLAY_BINS.get(prop, []):
            name, extra = b[0], b[1]
            pargs = b[2] if len(b) > 2 else []
            # the two profiles get target directories of their own: no rebuild when they alternate, and they can run side by side
            cmd = ["cargo", "run"] + prof + ["--offline", "--quiet", "--target-dir", tdir + ("_nodebug" if prof else ""), "--bin", name] + extra + (["--"] + pargs if pargs else [])
            exh = "--exhaustive" in pargs
            if exh and prof:
                continue  # the exhaustive enumeration is deterministic: once, in the dev profile
            jobs.append((f"{name} {' '.join(pargs)}".strip() + plabel, crate, cmd, bool(prof) or exh, ({"VERIF_EXHAUSTIVE_N": "5"} if (exh and thorough and prop in ("C02", "C03", "C04")) else {})))
    # the whole-run harness once more on a tokio current-thread runtime (its cooperative budget changes which polls return Pending)
    for b in REPLAY_BINS.get(prop, []):
        if b[0] == "c_run":
            cmd = ["cargo", "run", "--offline", "--quiet", "--target-dir", tdir, "--bin", "c_run"] + b[1] + ["--"] + b[2]
            jobs.append((f"c_run {' '.join(b[2])}, driven by a tokio runtime", crate, cmd, True, {"VERIF_EXECUTOR": "tokio"}))
    if FNMETA_BINS.get(prop):
        crate3 = _crate_for(repo, "replay_fnmeta", outdir)
        if repo != "/repo":
            p_ = os.path.join(crate3, "Cargo.toml")
            t_ = open(p_).read().replace("../replay/src", os.path.join(crate, "src"))
            open(p_, "w").write(t_)
        tdir3 = os.path.join(VERIF, "replay_fnmeta", "target") if repo == "/repo" else os.path.join(outdir, "replay_fnmeta_target")
        for name, pargs in FNMETA_BINS[prop]:
            cmd = ["cargo", "run", "--offline", "--quiet", "--target-dir", tdir3, "--bin", name] + (["--"] + pargs if pargs else [])
            jobs.append((f"{name} {' '.join(pargs)}".strip() + ", fn_graph with its `fn_meta` feature (access lists through the blanket impls)", crate3, cmd, True, {}))
    if NOASYNC_BINS.get(prop):
        crate2 = _crate_for(repo, "replay_noasync", outdir)
        if repo != "/repo":
            # the crate takes its sources from ../replay/src: point it at the copy made above
            p_ = os.path.join(crate2, "Cargo.toml")
            t_ = open(p_).read().replace("../replay/src", os.path.join(crate, "src"))
            open(p_, "w").write(t_)
        tdir2 = os.path.join(VERIF, "replay_noasync", "target") if repo == "/repo" else os.path.join(outdir, "replay_noasync_target")
        for name in NOASYNC_BINS[prop]:
            cmd = ["cargo", "run", "--offline", "--quiet", "--target-dir", tdir2, "--bin", name]
            jobs.append((f"{name}, fn_graph without its `async` feature", crate2, cmd, True, {}))
    return jobs


def bounded_exploration(prop, repo, outdir, seeds):
    """Thorough tier: every native harness registered for the property is run on the tree under several driver seeds.
    These are BOUNDED checks (never counted as proved); a concrete failing input found on the real crate is reported."""
    out, found = [], None
    crate = _crate_for(repo, "replay", outdir)
    tdir = os.path.join(VERIF, "replay", "target") if repo == "/repo" else os.path.join(outdir, "replay_target")
    for label, cwd, cmd, secondary, jenv in _native_jobs(prop, repo, outdir, thorough=True):
        # every driver seed in the default configuration; the other configurations once, with the last seed
        # the whole-run harness is the most expensive one (4200-function graph, budget sweep, threads): two driver seeds
        for sd in (seeds[-1:] if secondary else (seeds[:2] if label.startswith("c_run") else seeds)):
            env = dict(ENV, VERIF_SEED=str(sd), **jenv)
            t0 = time.time()
            what = f"native search {label} (driver seed {sd})"
            try:
                r = subprocess.run(cmd, cwd=cwd, env=env, capture_output=True, text=True, timeout=1200)
            except subprocess.TimeoutExpired:
                out.append({"what": what, "bound": "see the harness header", "result": "timed out after 1200 s", "backend": "native"})
                continue
            txt = r.stdout + r.stderr
            ok = [l for l in txt.splitlines() if l.startswith("OK")]
            if r.returncode == 1 and "VIOLATION" in txt:
                found = {"kind": "native-replay", "cmd": "cd " + cwd + f" && VERIF_SEED={sd} " + "".join(f"{k}={v} " for k, v in jenv.items()) + "CARGO_NET_OFFLINE=true " + " ".join(cmd),
                         "output": "\n".join(l for l in txt.splitlines() if "VIOLATION" in l)[:2000]}
                out.append({"what": what, "bound": "see the harness header", "result": "COUNTEREXAMPLE: " + found["output"][:300], "backend": "native"})
                return out, found
            out.append({"what": what, "bound": (ok[-1][:200] if ok else "ran"), "result": "no counterexample" if r.returncode == 0 else f"exit {r.returncode}", "backend": "native", "wall_s": round(time.time() - t0, 1)})
    # audit of the assumed dependency contracts (prelude stubs of daggy / petgraph / tokio mpsc / futures) against the real
    # crates: a disagreement invalidates the trusted base, it is not a property violation
    cmd = ["cargo", "run", "--offline", "--quiet", "--target-dir", tdir, "--bin", "audit_deps"]
    for sd in seeds[:2]:
        try:
            r = subprocess.run(cmd, cwd=crate, env=dict(ENV, VERIF_SEED=str(sd)), capture_output=True, text=True, timeout=600)
            txt = r.stdout + r.stderr
            bad = [l for l in txt.splitlines() if l.startswith("AUDIT-FAIL")]
            oks = [l for l in txt.splitlines() if l.startswith("OK audit")]
            out.append({"what": f"audit of assumed dependency contracts (audit_deps, seed {sd})", "bound": " | ".join(o[:160] for o in oks)[:900] or "ran",
                        "result": ("DISAGREEMENT: " + bad[0][:300]) if bad else ("agrees" if r.returncode == 0 else f"exit {r.returncode}"), "backend": "native", "audit_failed": bool(bad)})
        except subprocess.TimeoutExpired:
            out.append({"what": f"audit of assumed dependency contracts (audit_deps, seed {sd})", "result": "timed out", "backend": "native"})
    return out, None


def replay_search(prop, oid, v, repo, outdir):
    """Best-effort search for a concrete failing input on the REAL crate (never decides a property). The jobs are independent
    processes: up to four run side by side; the answer is the first job IN JOB ORDER that exhibits a violation."""
    import concurrent.futures as _cf
    jobs = _native_jobs(prop, repo, outdir)

    def one(job):
        label, cwd, cmd, secondary, jenv = job
        try:
            r = subprocess.run(cmd, cwd=cwd, env=dict(ENV, **jenv), capture_output=True, text=True, timeout=1800)
        except subprocess.TimeoutExpired:
            return None
        out = r.stdout + r.stderr
        if r.returncode == 1 and "VIOLATION" in out:
            return {"kind": "native-replay", "cmd": "cd " + cwd + " && " + "".join(f"{k}={v} " for k, v in jenv.items()) + "CARGO_NET_OFFLINE=true " + " ".join(cmd),
                    "output": "\n".join(l for l in out.splitlines() if "VIOLATION" in l or l.startswith("OK"))[:2000]}
        return None

    with _cf.ThreadPoolExecutor(max_workers=4) as ex:
        for res in ex.map(one, jobs):
            if res:
                return res
    return None
