"""Driver: runs the units a property depends on, classifies Verus output, writes evidence,
prints VIOLATION / UNDECIDED / KNOWN-FINDING lines. See DESIGN.md §8, §9."""
import hashlib
import json
import os
import re
import shutil
import subprocess
import sys
import time

sys.path.insert(0, os.path.dirname(os.path.abspath(__file__)))
from assemble import VERIF, Undecided, assemble_unit, run_extract, unit_items  # noqa: E402

SEMANTIC = [
    ("postcondition not satisfied", "postcondition"),
    ("precondition not satisfied", "precondition"),
    ("invariant not satisfied before loop", "invariant-entry"),
    ("invariant not satisfied at end of loop body", "invariant-preserved"),
    ("loop invariant not satisfied", "invariant"),
    ("loop ensures not satisfied", "loop-ensures"),
    ("loop ensures", "loop-ensures"),
    ("assertion failed", "assertion"),
    ("possible arithmetic underflow/overflow", "arithmetic-overflow"),
    ("possible division by zero", "division-by-zero"),
    ("decreases not satisfied", "termination"),
    ("index out of bounds", "index-bounds"),
    ("unable to prove", "closure-contract"),
    ("could not prove termination", "termination"),
    ("recommendation not met", None),  # never decisive
]

ASSUMPTION_PAT = re.compile(r'\bassume\s*\(|\badmit\s*\(|external_body|assume_specification|exec_allows_no_decreases_clause|verifier::external\b')


class _VerusSlot:
    """At most N verus processes at a time across ALL concurrent ./check invocations on this machine (N = number of cores): a
    slot is an flock on /verif/out/.slots/slot_<k>. Without it twenty checks started together run hundreds of solvers at once
    and every one of them crawls past its timeout. Waiting for a slot does not count against the solver's time."""
    def __enter__(self):
        import fcntl
        d = os.path.join(VERIF, "out", ".slots")
        os.makedirs(d, exist_ok=True)
        n = max(4, os.cpu_count() or 8)
        start = os.getpid() % n
        while True:
            for i in range(n):
                k = (start + i) % n
                f = open(os.path.join(d, f"slot_{k}"), "w")
                try:
                    fcntl.flock(f, fcntl.LOCK_EX | fcntl.LOCK_NB)
                    self.f = f
                    return self
                except OSError:
                    f.close()
            time.sleep(0.2)

    def __exit__(self, *a):
        import fcntl
        try:
            fcntl.flock(self.f, fcntl.LOCK_UN)
        finally:
            self.f.close()


def verus_run(path, seed=0, multiple=24, rlimit=None, timeout=2400):
    cmd = ["verus", path, "--output-json", "--time-expanded", "--error-format=json", "--multiple-errors", str(multiple),
           "--triggers-mode", "silent"]
    if seed:
        cmd += ["--smt-option", f"smt.random_seed={seed}"]
    if rlimit:
        cmd += ["--rlimit", str(rlimit)]
    with _VerusSlot():
        t0 = time.time()
        try:
            # rustc writes `<file>.long-type-<hash>.txt` next to the cwd for long types in diagnostics: keep them in the out dir
            r = subprocess.run(cmd, capture_output=True, text=True, timeout=timeout, cwd=os.path.dirname(os.path.abspath(path)) or None)
        except subprocess.TimeoutExpired:
            return {"cmd": " ".join(cmd), "timeout": True, "wall": time.time() - t0, "diags": [], "json": None, "rc": -1, "stderr": ""}
    diags = []
    for line in r.stderr.splitlines():
        line = line.strip()
        if line.startswith("{"):
            try:
                diags.append(json.loads(line))
            except ValueError:
                pass
    js = None
    try:
        # stdout holds one JSON document
        start = r.stdout.index("{")
        js = json.loads(r.stdout[start:])
    except (ValueError, IndexError):
        js = None
    return {"cmd": " ".join(cmd), "timeout": False, "wall": time.time() - t0, "diags": diags, "json": js, "rc": r.returncode,
            "stderr": r.stderr, "stdout": r.stdout}


def fn_breakdown(js):
    out = {}
    if not js:
        return out
    try:
        for m in js["times-ms"]["smt"]["smt-run-module-times"]:
            for f in m.get("function-breakdown", []):
                name = f["function"].split("::")[-1]
                full = f["function"]
                out.setdefault(full, {"ms": 0, "rlimit": 0, "success": True})
                out[full]["ms"] += f.get("time", 0)
                out[full]["rlimit"] += f.get("rlimit", 0)
                out[full]["success"] = out[full]["success"] and f.get("success", True)
    except (KeyError, TypeError):
        pass
    return out


def classify(A, res, path):
    """Returns (violations, undecided_reasons, canaries_failed) from the diagnostics of one run."""
    violations = []
    undecided = []
    canaries = set()
    if res["timeout"]:
        undecided.append("verus-timeout")
        return violations, undecided, canaries
    for d in res["diags"]:
        lvl = d.get("level")
        msg = d.get("message", "")
        if lvl not in ("error",):
            continue
        if msg.startswith("aborting due to"):
            continue
        kind = None
        sem = False
        for pat, k in SEMANTIC:
            if pat in msg:
                kind = k
                sem = True
                break
        spans = [s_ for s_ in d.get("spans", []) if os.path.abspath(s_.get("file_name", "")) == os.path.abspath(path)]
        if not sem:
            if "rlimit" in msg.lower() or "resource limit" in msg.lower():
                undecided.append("rlimit:" + (str(spans[0]["line_start"]) if spans else "?"))
            else:
                where = ""
                if spans:
                    o = A.origin[spans[0]["line_start"] - 1]
                    where = f"@{o.get('k')}:{o.get('ofile', o.get('file', ''))}:{o.get('oline', o.get('tline', ''))}"
                undecided.append("front-end:" + msg[:160].replace("\n", " ") + where)
            continue
        if kind is None:
            continue
        # find the obligation
        oid = None
        where = None
        prim = [s_ for s_ in spans if s_.get("is_primary")]
        labeled = [s_ for s_ in spans if s_.get("label") and ("failed" in s_["label"])]
        cand = labeled + prim + spans
        canary_hit = False
        for s_ in cand:
            ln = s_["line_start"]
            o = A.origin[ln - 1]
            if o.get("k") == "canary":
                canaries.add(o["id"])
                canary_hit = True
                break
            if o.get("oid") and o.get("lemma") and kind == "precondition" and not s_.get("is_primary"):
                continue  # a callee lemma's requires clause: the failing obligation is the calling lemma (primary span)
            if o.get("oid"):
                oid = o["oid"]
                where = o
                break
            if kind == "precondition" and o.get("k") == "clause" and o.get("kw") == "requires" and not o.get("name", "").startswith("requires#"):
                # a NAMED requires clause of the callee failed at a call site: the name (with its property tags) identifies it
                caller = None
                for p_ in prim:
                    caller = A.origin[p_["line_start"] - 1].get("fn")
                oid = f"{A.unit}/{caller or o.get('fn')}/{o['name']}@call-of-{o.get('fn')}"
                where = dict(o, fn=caller or o.get("fn"))
                break
        if canary_hit:
            continue
        named = oid is not None
        hint = False
        if oid is None:
            # code-located safety obligation or unnamed overlay assert
            s_ = (prim or spans or [None])[0]
            if s_ is None:
                undecided.append("unlocated:" + msg[:100])
                continue
            o = A.origin[s_["line_start"] - 1]
            where = o
            text = A.lines[s_["line_start"] - 1].strip()
            if o.get("k") in ("code", "closure-header"):
                oid = f"{A.unit}/{o.get('fn')}/{kind}@`{text[:80]}`"
                named = True
            elif o.get("k") in ("ghost", "raw", "prelude"):
                oid = f"{A.unit}/{o.get('fn', '?')}/hint:{o.get('ofile')}:{o.get('oline', o.get('line'))}"
                hint = True
            else:
                oid = f"{A.unit}/?/{kind}@{s_['line_start']}"
                hint = True
        violations.append({"oid": oid, "kind": kind, "named": named and not hint, "message": msg, "rendered": d.get("rendered", ""),
                           "where": {k: v for k, v in (where or {}).items() if k != "first"}})
    return violations, undecided, canaries


def scan_assumptions(A):
    hits = {"prelude": [], "overlay": []}
    for i, (l, o) in enumerate(zip(A.lines, A.origin), 1):
        if l.strip().startswith("//"):
            continue
        m = ASSUMPTION_PAT.search(l)
        if m:
            if o.get("k") == "prelude":
                hits["prelude"].append(f"{o['file']}:{o['line']}: {l.strip()[:100]}")
            elif o.get("k") in ("ghost", "raw", "clause"):
                hits["overlay"].append(f"{o.get('ofile')}:{o.get('oline')}: {l.strip()[:100]}")
    return hits


# features that exist only for this machinery's instrumentation (MANIFEST.hooks): the verified configuration has them off
INSTRUMENTATION_FEATURES = {"verif_hooks"}


def cfg_coverage(cfg, items, ex):
    """Conditional compilation inside the code under contract must stay inside what the unit's feature sets cover:
    every `feature = ".."` named by a cfg INSIDE an extracted function / closure must be both on and off among the unit's
    feature sets (else a configuration of that code is never verified), and any other predicate (debug_assertions,
    target_*, cfg!(), cfg_attr on code) is outside the model. Returns a reason for UNDECIDED or None."""
    fsets = [set(f) for f in cfg.get("feature_sets", [])]
    for it in items:
        if it.get("kind") not in ("fn", "impl_fn", "closure", "await_match", "tail", "impl") or it.get("contract_only"):
            continue
        orig = (ex.get(it["name"]) or {}).get("orig", "")
        # the item's own attributes (everything before its `fn` keyword) gate its existence, not its behaviour
        m = re.search(r'\bfn\b', orig)
        body = orig[m.start():] if (m and it.get("kind") in ("fn", "impl_fn")) else orig
        body = re.sub(r'//[^\n]*', '', body)
        if re.search(r'\bcfg!\s*\(', body):
            return f"cfg-outside-the-feature-model:{it['name']}:cfg!() in code"
        for a in re.finditer(r'#\s*\[\s*(cfg|cfg_attr)\s*\(', body):
            i = a.end()
            depth = 1
            while i < len(body) and depth:
                depth += body[i] == "("
                depth -= body[i] == ")"
                i += 1
            pred = body[a.end():i - 1]
            if a.group(1) == "cfg_attr":
                if re.match(r'\s*coverage_nightly\s*,\s*coverage\(off\)\s*$', pred):
                    continue
                return f"cfg-outside-the-feature-model:{it['name']}:cfg_attr({pred[:60]})"
            rest = re.sub(r'feature\s*=\s*"[^"]*"', '', pred)
            atoms = [w for w in re.findall(r'[A-Za-z_][A-Za-z0-9_]*', rest) if w not in ("all", "any", "not")]
            if atoms:
                return f"cfg-outside-the-feature-model:{it['name']}:cfg({pred[:60]})"
            for f in re.findall(r'feature\s*=\s*"([^"]*)"', pred):
                if f in INSTRUMENTATION_FEATURES:
                    continue
                if not (any(f in s_ for s_ in fsets) and any(f not in s_ for s_ in fsets)):
                    return f"feature-not-varied:{it['name']}:the code under contract is compiled differently with and without `{f}` but the unit is verified under {sorted(map(sorted, fsets))} only"
    return None


def run_unit(unit, repo, outdir, seed=0, features=None, canary=True, rlimit=None):
    """Extract, assemble, verify one unit under one feature set. Returns a result dict."""
    ud = os.path.join(VERIF, "units", unit)
    cfg = json.load(open(os.path.join(ud, "unit.json")))
    res = {"unit": unit, "features": features, "violations": [], "undecided": [], "obligations": [], "functions": {}, "cmds": [],
           "ms": 0, "canaries": {"expected": 0, "failed_as_expected": 0, "vacuous": []}, "assumption_hits": {}, "wall": 0.0}
    t0 = time.time()
    tag = unit + "_" + "_".join(features)
    try:
        items_ = unit_items(cfg, features)
        ex = run_extract(repo, features, items_, outdir)
        bad = cfg_coverage(cfg, items_, ex)
        if bad:
            raise Undecided(bad)
        preludes = [os.path.join(VERIF, "prelude", p) for p in cfg["prelude"]]
        for feat, extra in cfg.get("prelude_if", {}).items():
            if feat in features:
                preludes += [os.path.join(VERIF, "prelude", p) for p in extra]
        for feat, extra in cfg.get("prelude_unless", {}).items():
            if feat not in features:
                preludes += [os.path.join(VERIF, "prelude", p) for p in extra]
        A = assemble_unit(unit, ud, cfg, ex, preludes, canary=False, features=features)
        A.unit = unit
    except Undecided as u:
        res["undecided"].append(u.reason)
        res["wall"] = time.time() - t0
        return res
    path = os.path.join(outdir, tag + ".rs")
    open(path, "w").write(A.text())
    hits = scan_assumptions(A)
    res["assumption_hits"] = hits
    if hits["overlay"]:
        res["undecided"].append("assumption-in-overlay:" + hits["overlay"][0])
    r = verus_run(path, seed=seed, rlimit=rlimit)
    res["cmds"].append(r["cmd"])
    v, u, _ = classify(A, r, path)
    if u and not v and all(x.startswith("rlimit") for x in u):
        # resource limit only: one retry with a larger limit (an obligation proved with more resources is proved)
        r = verus_run(path, seed=seed, rlimit=(rlimit or 10) * 8)
        res["cmds"].append(r["cmd"])
        v, u, _ = classify(A, r, path)
    fb = fn_breakdown(r["json"])
    res["ms"] += sum(f["ms"] for f in fb.values())
    if r["json"] is None and not u and not v:
        u.append("verus-no-json:" + r.get("stderr", "")[-300:].replace("\n", " "))
    res["violations"] = v
    res["undecided"] += u
    failed_fns = set()
    for viol in v:
        fn = viol["where"].get("fn")
        if fn:
            failed_fns.add(fn)
    # obligations
    for ob in A.obligations:
        st = "discharged"
        if any(x["oid"] == ob["id"] for x in v):
            st = "FAILED"
        elif ob["fn"] in failed_fns or u:
            st = "undischarged"
        res["obligations"].append({"id": ob["id"], "kind": ob["kind"], "status": st, "weight": ob["weight"]})
    for fn, meta in A.functions.items():
        if meta.get("lemma"):
            continue  # a named lemma of an overlay: its obligation is the lemma itself, not code of /repo
        if meta.get("contract") or any(o["fn"] == fn for o in A.obligations):
            st = "FAILED" if fn in failed_fns else ("undischarged" if u else "discharged")
            res["obligations"].append({"id": f"{unit}/{fn}/body-safety(call preconditions, overflow, bounds, termination)", "kind": "safety", "status": st, "weight": 1})
        ms = 0
        for full, f in fb.items():
            if full.split("::")[-1] == fn.split("__")[-1]:
                ms += f["ms"]
        res["functions"][fn] = {"repo_file": meta["file"], "repo_span": meta["span"], "sha256": meta["sha256"], "rules": meta["rules"],
                                "under_contract": bool(meta.get("contract")), "smt_ms": ms}
    # lemma / spec functions proved (from breakdown): count as context
    res["proof_fns"] = sorted(set(full for full in fb if full.split("::")[-1].startswith("lemma_")))
    # canary run (vacuity)
    if canary and not res["undecided"]:
        try:
            Ac = assemble_unit(unit, ud, cfg, ex, preludes, canary=True, extra_prelude_text="pub uninterp spec fn vx_canary(k: int) -> bool;", features=features)
            Ac.unit = unit
            cpath = os.path.join(outdir, tag + "_canary.rs")
            open(cpath, "w").write(Ac.text())
            expected = [o["id"] for o in Ac.origin if o.get("k") == "canary"]
            rc = verus_run(cpath, seed=seed, multiple=max(24, len(expected) + 8), rlimit=rlimit)
            res["cmds"].append(rc["cmd"])
            _, cu, failed = classify(Ac, rc, cpath)
            if cu and all(x.startswith("rlimit") for x in cu):
                # the solver gave up on a function of the canary variant (a failing assertion costs more than a proof):
                # one retry with a larger resource limit; more resources never turn a refutable canary into a proved one
                rc = verus_run(cpath, seed=seed, multiple=max(24, len(expected) + 8), rlimit=(rlimit or 10) * 8)
                res["cmds"].append(rc["cmd"])
                _, cu, failed = classify(Ac, rc, cpath)
            res["canaries"]["expected"] = len(expected)
            res["canaries"]["failed_as_expected"] = len([e for e in expected if e in failed])
            vac = [e for e in expected if e not in failed]
            res["canaries"]["vacuous"] = vac
            if cu:
                res["undecided"].append("canary-run:" + cu[0])
            elif vac:
                res["undecided"].append("vacuous:" + ",".join(vac[:4]))
        except Undecided as u_:
            res["undecided"].append("canary-assemble:" + u_.reason)
    res["wall"] = time.time() - t0
    res["assembled"] = path
    return res
