"""Assembler: extracted items (from vx-extract) + prelude + overlay -> one Verus file.

Overlay format (units/<U>/overlay.vrs), sections start with a line beginning with '@':

  @fn NAME [ret RETNAME]          requires/ensures/decreases clauses of fn NAME (verbatim Verus)
  @loop NAME K                    invariant/decreases/ensures clauses of loop K of fn NAME
  @at NAME fn_head|fn_end|loop_head K|loop_end K|after_loop K      ghost statements at a marker
  @before NAME "text"             ghost statements before the unique code line of NAME containing text
  @after NAME "text"              ghost statements after that (single-line) statement
  @closure NAME "text"            replacement header for the closure whose header line contains text (R8);
                                  the section body is the new header up to (excluding) the body's `{`
  @raw                            verbatim Verus items (spec fns, lemmas) appended after the code

A clause may be named by a preceding line `//# name`; unnamed clauses are numbered.
Ghost sections may only contain proof blocks, ghost/tracked lets and asserts (checked).
"""
import hashlib
import json
import os
import re
import subprocess
import sys

VERIF = os.path.dirname(os.path.dirname(os.path.abspath(__file__)))
EXTRACT = os.path.join(VERIF, "tools/vx-extract/target/release/vx-extract")


class Undecided(Exception):
    def __init__(self, reason, detail=""):
        super().__init__(reason)
        self.reason = reason
        self.detail = detail


def unit_items(cfg, features):
    """items of the unit under a feature set (`items_if`: {feature: [items]} adds feature-gated items)"""
    items = [dict(i) for i in cfg["items"]]
    for feat, extra in cfg.get("items_if", {}).items():
        if feat in features:
            items += [dict(i) for i in extra]
    for it in items:
        for key in list(it.keys()):
            if key.endswith("_if"):
                base = key[:-3]
                for feat, val in it[key].items():
                    if feat in features:
                        it[base] = val
    return items


def run_extract(repo, features, items, workdir):
    req = {"repo": repo, "features": features, "items": items}
    os.makedirs(workdir, exist_ok=True)
    p = os.path.join(workdir, "extract_req_%d_%d.json" % (os.getpid(), id(items)))
    with open(p, "w") as f:
        json.dump(req, f)
    r = subprocess.run([EXTRACT, p], capture_output=True, text=True)
    if r.returncode != 0:
        try:
            e = json.loads(r.stderr.strip().splitlines()[-1])
            raise Undecided(e.get("error", "extract") + ":" + e.get("message", "")[:300].replace("\n", " "))
        except (ValueError, IndexError):
            raise Undecided("extract-crash", r.stderr[-2000:])
    return json.loads(r.stdout)


# ---------------------------------------------------------------------------------------------
# overlay parsing


class Section:
    def __init__(self, kind, args, line_no, path):
        self.kind = kind
        self.args = args
        self.lines = []  # (text, overlay_line_no)
        self.line_no = line_no
        self.path = path
        self.used = False


def parse_overlay(path):
    secs = []
    if not os.path.exists(path):
        return secs
    cur = None
    with open(path) as f:
        for i, line in enumerate(f, 1):
            line = line.rstrip("\n")
            if line.startswith("@"):
                m = re.match(r'@(\w+)(\??)\s*(.*)$', line)
                kind, optional, rest = m.group(1), m.group(2) == "?", m.group(3).strip()
                args = re.findall(r'"[^"]*"|\S+', rest)
                args = [a[1:-1] if a.startswith('"') else a for a in args]
                cur = Section(kind, args, i, path)
                cur.optional = optional
                secs.append(cur)
            elif cur is not None:
                cur.lines.append((line, i))
            elif line.strip() and not line.strip().startswith("//"):
                raise Undecided("overlay-syntax", f"{path}:{i}: text before first section")
    return secs


GHOST_OK = re.compile(r'^(proof\s*\{|let\s+ghost\b|let\s+tracked\b|assert\b|assert\s*\(|//|\}|$)')


def lint_ghost(sec):
    """Overlay ghost sections must not add executable statements (DESIGN 3.3): every top-level
    statement must be a proof block, a ghost/tracked let or an assert."""
    depth = 0
    for text, ln in sec.lines:
        t = text.strip()
        if depth == 0 and t and not GHOST_OK.match(t):
            raise Undecided("overlay-exec-code", f"{sec.path}:{ln}: `{t}` is not a ghost statement")
        depth += text.count("{") + text.count("(") + text.count("[")
        depth -= text.count("}") + text.count(")") + text.count("]")


def split_clauses(lines):
    """lines: [(text, ln)] of a @fn / @loop section. Returns list of
    (keyword, name, [(text, ln)]) one per clause."""
    out = []
    kw = None
    pending_name = None
    cur = []
    depth = 0
    counters = {}

    def flush():
        nonlocal cur, pending_name
        if cur and any(t.strip() for t, _ in cur):
            counters[kw] = counters.get(kw, 0) + 1
            name = pending_name or f"{kw}#{counters[kw]}"
            out.append((kw, name, cur))
            pending_name = None
        cur = []

    for text, ln in lines:
        t = text.strip()
        if not t:
            continue
        if t.startswith("//#"):
            flush()
            pending_name = t[3:].strip()
            continue
        if t.startswith("//"):
            continue
        m = re.match(r'^(requires|ensures|invariant_except_break|invariant|decreases|recommends)\b(.*)$', t)
        if m and depth == 0:
            flush()
            kw = m.group(1)
            rest = m.group(2).strip()
            if not rest:
                continue
            text = " " * (len(text) - len(text.lstrip())) + rest
            t = rest
        if kw is None:
            raise Undecided("overlay-syntax", f"line {ln}: clause outside requires/ensures/invariant")
        cur.append((text, ln))
        # strip string/char literals crudely for depth counting
        tt = re.sub(r'"[^"]*"', '', t)
        tt = re.sub(r"//.*$", "", tt)
        depth += sum(tt.count(c) for c in "([{") - sum(tt.count(c) for c in ")]}")
        if depth == 0 and tt.rstrip().endswith(","):
            flush()
    flush()
    return out


# ---------------------------------------------------------------------------------------------
# assembly


class Assembled:
    def __init__(self):
        self.lines = []  # text
        self.origin = []  # per line: dict
        self.fn_regions = []  # (start, end, fn_name, item_name)
        self.clauses = {}  # line_no(1-based) -> obligation dict
        self.obligations = []  # list of dicts {id, fn, kind, name, line}
        self.functions = {}  # fn name -> {item, file, span, hash, rules}

    def add(self, text, origin):
        for l in text.split("\n"):
            self.lines.append(l)
            self.origin.append(origin)

    def text(self):
        return "\n".join(self.lines) + "\n"


def _find_balanced(s, start):
    """s[start] == '(' ; return index after the matching ')'."""
    depth = 0
    i = start
    while i < len(s):
        if s[i] == "(":
            depth += 1
        elif s[i] == ")":
            depth -= 1
            if depth == 0:
                return i + 1
        i += 1
    raise ValueError("unbalanced")


def emit_ghost(out, sec, indent, fn):
    """ghost statements of an overlay section; `//# name` names the next assert as an obligation"""
    sec.used = True
    lint_ghost(sec)
    pending = None
    for t, ln in sec.lines:
        st = t.strip()
        if st.startswith("//#"):
            pending = st[3:].strip()
            continue
        o = {"k": "ghost", "fn": fn, "ofile": os.path.relpath(sec.path, VERIF), "oline": ln}
        if pending and st.startswith("assert"):
            o["assert_name"] = pending
            pending = None
        out.append((indent + t, o))


def assemble_unit(unit_name, unit_dir, cfg, extracted, prelude_files, canary=False, extra_prelude_text="", features=()):
    """Returns Assembled."""
    A = Assembled()
    canary_n = [0]
    A.add("// GENERATED by /verif/vx/assemble.py — do not edit. Unit " + unit_name, {"k": "gen"})
    A.add("#![allow(unused_imports, unused_variables, unused_mut, dead_code, unused_assignments, unused_parens, unused_braces, non_snake_case)]", {"k": "gen"})
    A.add("#![feature(allocator_api)]", {"k": "gen"})
    A.add("use vstd::prelude::*;", {"k": "gen"})
    A.add("verus! {", {"k": "gen"})
    for pf in prelude_files:
        with open(pf) as f:
            for i, l in enumerate(f.read().split("\n"), 1):
                A.lines.append(l)
                A.origin.append({"k": "prelude", "file": os.path.relpath(pf, VERIF), "line": i})
    if extra_prelude_text:
        A.add(extra_prelude_text, {"k": "gen"})
    secs = []
    ovs = list(cfg.get("overlays", ["overlay.vrs"]))
    for feat, extra in cfg.get("overlays_if", {}).items():
        if feat in features:
            ovs += extra
    for feat, extra in cfg.get("overlays_unless", {}).items():
        if feat not in features:
            ovs += extra
    for ov in ovs:
        these = parse_overlay(os.path.join(unit_dir, ov))
        if ov.startswith(".."):
            # contract file of another unit: only the contracts of functions used here apply
            for s_ in these:
                s_.optional = True
        secs += these
    by = {}
    for s_ in secs:
        by.setdefault((s_.kind, tuple(s_.args[:1])), []).append(s_)

    def find(kind, *args):
        for s_ in secs:
            if s_.kind == kind and s_.args[: len(args)] == list(args):
                return s_
        return None

    def find_all(kind, *args):
        # several overlay files of a unit may add ghost text at the same point (e.g. a feature-gated overlay)
        return [s_ for s_ in secs if s_.kind == kind and s_.args[: len(args)] == list(args)]

    for item in unit_items(cfg, features):
        name = item["name"]
        ex = extracted[name]
        text = ex["text"].rstrip("\n")
        src_lines = text.split("\n")
        out = []  # (text, origin)
        cur_fn = None
        fn_start = None
        canary_points = []
        code_origin = lambda i: {"k": "code", "item": name, "file": ex["file"], "span": ex["span"], "tline": i}
        i = 0
        # pre-pass: vx_ret!( .. ) replacement needs the fn name: look ahead for vx_fn_head
        joined = "\n".join(src_lines)
        # process sequentially by regex over the whole item text for ret markers
        def repl_ret(m_start):
            pass
        # find every fn in this item: "fn NAME" ... "vx_fn_head!(NAME);"
        done_fns = set()
        while True:
            m = None
            for m_ in re.finditer(r'vx_fn_head!\((\w+)\);', joined):
                if m_.group(1) not in done_fns:
                    m = m_
                    break
            if m is None:
                break
            fname = m.group(1)
            done_fns.add(fname)
            fsec = find("fn", fname)
            head = joined[: m.start()]
            k = -1
            mlen = 0
            for rm in re.finditer(r'vx_ret\s*!\s*\(', head):
                k, mlen = rm.start(), rm.end() - rm.start()
            # only if this vx_ret belongs to this fn (no other vx_fn_head between)
            if k >= 0 and "vx_fn_head!" not in head[k:]:
                end = _find_balanced(joined, k + mlen - 1)
                ty = joined[k + mlen : end - 1]
                retname = None
                if fsec is not None and len(fsec.args) >= 3 and fsec.args[1] == "ret":
                    retname = fsec.args[2]
                new = f"({retname}: {ty})" if retname else ty
                joined = joined[:k] + new + joined[end:]
        src_lines = joined.split("\n")
        pending_after = []  # (sec) to emit after current line
        # anchors for @before/@after
        anchor_secs = [s_ for s_ in secs if s_.kind in ("before", "after")]
        n = len(src_lines)
        idx = 0
        while idx < n:
            line = src_lines[idx]
            stripped = line.strip()
            indent = line[: len(line) - len(line.lstrip())]
            m = re.match(r'^vx_fn_head!\((\w+)\);$', stripped)
            if m:
                cur_fn = m.group(1)
                # previous emitted line must end with "{"
                j = len(out) - 1
                while j >= 0 and not out[j][0].rstrip().endswith("{"):
                    j -= 1
                if j < 0:
                    raise Undecided("assemble", f"{name}: no `{{` before fn head of {cur_fn}")
                brace_line, brace_origin = out[j]
                out[j] = (brace_line.rstrip()[:-1].rstrip(), brace_origin)
                fsec = find("fn", cur_fn)
                fsecs = [s_ for s_ in secs if s_.kind == "fn" and s_.args[:1] == [cur_fn]]
                fn_first_line = j
                # walk back to the line containing `fn NAME`
                while fn_first_line > 0 and not re.search(r'\bfn\s+\w+', out[fn_first_line][0]):
                    fn_first_line -= 1
                fn_start = fn_first_line
                if fsec is not None:
                    allcl = []
                    for fs_ in fsecs:
                        fs_.used = True
                        for kw, cname, cl in split_clauses(fs_.lines):
                            allcl.append((kw, cname, cl, fs_))
                    order = {"requires": 0, "recommends": 0, "ensures": 1, "decreases": 2}
                    allcl.sort(key=lambda x: order.get(x[0], 1))
                    last_kw = None
                    for kw, cname, cl, fs_ in allcl:
                        first = True
                        for t, ln in cl:
                            prefix = indent + (kw + " " if (first and kw != last_kw) else "    ")
                            last_kw = kw
                            out.append((prefix + t.strip(), {"k": "clause", "fn": cur_fn, "item": name, "kw": kw, "name": cname, "ofile": os.path.relpath(fs_.path, VERIF), "oline": ln, "first": first}))
                            first = False
                out.append((indent[:-4] + "{" if len(indent) >= 4 else "{", {"k": "gen"}))
                for hsec in find_all("at", cur_fn, "fn_head"):
                    if hsec:
                        emit_ghost(out, hsec, indent, cur_fn)
                A.functions[cur_fn] = {"item": name, "file": ex["file"], "span": ex["span"], "rules": ex["rules"],
                                       "sha256": hashlib.sha256(ex["orig"].encode()).hexdigest(), "contract": fsec is not None,
                                       "_start_out": fn_start}
                idx += 1
                continue
            m = re.match(r'^vx_loop_head!\((\w+), (\w+)\);$', stripped)
            if m:
                f_, k = m.group(1), m.group(2)
                j = len(out) - 1
                while j >= 0 and not out[j][0].rstrip().endswith("{"):
                    j -= 1
                brace_line, brace_origin = out[j]
                out[j] = (brace_line.rstrip()[:-1].rstrip(), brace_origin)
                lsec = find("loop", f_, k)
                if lsec is not None:
                    lsec.used = True
                    last_kw = None
                    for kw, cname, cl in split_clauses(lsec.lines):
                        first = True
                        for t, ln in cl:
                            prefix = indent + (kw + " " if (first and kw != last_kw) else "    ")
                            last_kw = kw
                            out.append((prefix + t.strip(), {"k": "clause", "fn": f_, "item": name, "kw": kw, "loop": k, "name": f"loop-{k}.{cname}", "ofile": os.path.relpath(lsec.path, VERIF), "oline": ln, "first": first}))
                            first = False
                out.append((indent[:-4] + "{", {"k": "gen"}))
                for hsec in find_all("at", f_, "loop_head", k):
                    if hsec:
                        emit_ghost(out, hsec, indent, f_)
                idx += 1
                continue
            m = re.match(r'^vx_(loop_end|after_loop)!\((\w+), (\w+)\);$', stripped)
            if m:
                kind, f_, k = m.group(1), m.group(2), m.group(3)
                for hsec in find_all("at", f_, kind, k):
                    if hsec:
                        emit_ghost(out, hsec, indent, f_)
                if canary:
                    canary_n[0] += 1
                    out.append((indent + f"assert(!vx_canary({canary_n[0]})); // CANARY {f_}:{kind}:{k}", {"k": "canary", "fn": f_, "id": f"{f_}:{kind}:{k}"}))
                idx += 1
                continue
            if stripped == "vx_contract_only!();":
                # insert #[verifier::external_body] before the fn header of cur_fn
                fs = fn_start
                ind2 = out[fs][0][: len(out[fs][0]) - len(out[fs][0].lstrip())]
                out.insert(fs, (ind2 + "#[verifier::external_body]", {"k": "gen"}))
                A.functions[cur_fn]["contract_only"] = True
                A.functions[cur_fn]["contract"] = False
                idx += 1
                continue
            m = re.match(r'^vx_closure_head!\((\w+), (\w+)\);$', stripped)
            if m:
                f_, k = m.group(1), m.group(2)
                csec = find("closure", f_, k)
                if csec is not None:
                    csec.used = True
                    j = len(out) - 1
                    while j >= 0 and not out[j][0].rstrip().endswith("{"):
                        j -= 1
                    hl, ho = out[j]
                    hm = None
                    for hm_ in re.finditer(r'\|[^|]*\|', hl):
                        hm = hm_
                    if hm is None:
                        raise Undecided("assemble", f"{name}: closure {k} of {f_}: header `|..|` not on the line before its body: `{hl.strip()}`")
                    body_lines = [(t, ln) for t, ln in csec.lines if t.strip()]
                    newh = body_lines[0][0].strip()
                    def _arity(h):
                        mm = re.search(r'\|([^|]*)\|', h)
                        inner = mm.group(1).strip() if mm else ""
                        if not inner:
                            return 0
                        depth = 0; n_ = 1
                        for ch in inner:
                            if ch in "(<[": depth += 1
                            elif ch in ")>]": depth -= 1
                            elif ch == "," and depth == 0: n_ += 1
                        return n_
                    if getattr(csec, "optional", False) and _arity(hl[hm.start():hm.end()]) != _arity(newh):
                        # the closure at this ordinal has another shape than the one the overlay was written for
                        csec.used = False
                        idx += 1
                        continue
                    out[j] = (hl[: hm.start()] + newh, dict(ho, k="closure-header"))
                    last_kw = None
                    for kw, cname, cl in split_clauses(body_lines[1:]):
                        first = True
                        for t, ln in cl:
                            prefix = indent + (kw + " " if (first and kw != last_kw) else "    ")
                            last_kw = kw
                            out.append((prefix + t.strip(), {"k": "clause", "fn": f_, "item": name, "kw": kw, "closure": k, "name": f"closure-{k}.{cname}", "ofile": os.path.relpath(csec.path, VERIF), "oline": ln, "first": first}))
                            first = False
                    out.append((indent[:-4] + "{", {"k": "gen"}))
                idx += 1
                continue
            m = re.match(r'^vx_debug_assert!\((\w+)\);$', stripped)
            if m:
                # R26: a `debug_assert!` of the code: its (already evaluated) condition is a proof obligation of the function
                out.append((indent + f"proof {{ assert({m.group(1)}); }} // debug_assert! of the code (R26)", code_origin(idx + 1) | {"fn": cur_fn}))
                idx += 1
                continue
            m = re.match(r'^vx_fn_end!\((\w+)\);$', stripped)
            if m:
                f_ = m.group(1)
                for hsec in find_all("at", f_, "fn_end"):
                    if hsec:
                        emit_ghost(out, hsec, indent, f_)
                if canary and not A.functions.get(f_, {}).get("contract_only"):
                    canary_n[0] += 1
                    out.append((indent + f"assert(!vx_canary({canary_n[0]})); // CANARY {f_}:fn_end", {"k": "canary", "fn": f_, "id": f"{f_}:fn_end"}))
                idx += 1
                continue
            # anchored sections
            emitted = False
            for s_ in anchor_secs:
                if s_.used or cur_fn is None or s_.args[0] != cur_fn:
                    continue
                if s_.args[1] in line:
                    if s_.kind == "before":
                        emit_ghost(out, s_, indent, cur_fn)
                    elif s_.kind == "after":
                        s_.used = True
                        pending_after.append(s_)
            if not emitted:
                out.append((line, code_origin(idx + 1) | {"fn": cur_fn}))
            if pending_after:
                for s_ in pending_after:
                    emit_ghost(out, s_, indent, cur_fn)
                pending_after = []
            idx += 1
        base = len(A.lines)
        for pl in item.get("prefix_lines", []):
            A.lines.append(pl)
            A.origin.append({"k": "gen"})
            base += 1
        for t, o in out:
            A.lines.append(t)
            A.origin.append(o)
        for f_, meta in A.functions.items():
            if meta["item"] == name and "_start_out" in meta:
                meta["_start"] = base + meta.pop("_start_out") + 1
    # raw sections
    for s_ in secs:
        if s_.kind == "raw":
            s_.used = True
            # a `//# NAME` comment directly above a top-level `pub proof fn X(` names X as an obligation (kind lemma):
            # every line of X up to its closing `}` carries the obligation id
            pend_name, cur = None, None
            for t, ln in s_.lines:
                o = {"k": "raw", "ofile": os.path.relpath(s_.path, VERIF), "oline": ln}
                st = t.strip()
                if st.startswith("//#") and not t.startswith((" ", "\t")):
                    pend_name = st[3:].strip()
                elif pend_name and not t.startswith((" ", "\t")):
                    m_ = re.match(r"pub proof fn (\w+)", st)
                    if m_:
                        cur = (m_.group(1), pend_name)
                        o["lemma_first"] = True
                        A.functions.setdefault(cur[0], {"item": "@raw", "file": o["ofile"], "span": [ln, ln], "sha256": "", "rules": [], "lemma": True})
                    pend_name = None
                body_open = False
                if cur:
                    o["fn"], o["lemma"] = cur
                    if t.rstrip() == "{" and not A.functions[cur[0]].get("_opened"):
                        A.functions[cur[0]]["_opened"] = True
                        body_open = True
                    if t.rstrip() == "}":
                        A.functions[cur[0]]["span"][1] = ln
                        A.functions[cur[0]].pop("_opened", None)
                        cur = None
                A.lines.append(t)
                A.origin.append(o)
                if body_open and canary:
                    # vacuity of the lemma's hypotheses: this must be reported failing
                    canary_n[0] += 1
                    A.lines.append(f"    assert(!vx_canary({canary_n[0]})); // CANARY {o['fn']}:lemma_requires")
                    A.origin.append({"k": "canary", "fn": o["fn"], "id": f"{o['fn']}:lemma_requires"})
    for s_ in secs:
        if not s_.used and not getattr(s_, "optional", False):
            raise Undecided("anchor-lost", f"overlay section @{s_.kind} {' '.join(s_.args)} ({os.path.relpath(s_.path, VERIF)}:{s_.line_no}) matched nothing")
    A.add("} // verus!", {"k": "gen"})
    A.add("fn main() {}", {"k": "gen"})
    # obligations
    seen = set()
    for ln, o in enumerate(A.origin, 1):
        if o.get("k") == "clause" and o.get("first") and o["kw"] in ("requires", "ensures", "invariant", "invariant_except_break", "decreases"):
            if o["kw"] == "requires":
                continue
            if A.functions.get(o["fn"], {}).get("contract_only"):
                continue  # assumed here, proved in the unit that owns the function
            oid = f"{unit_name}/{o['fn']}/{o['name']}"
            n_ = 2
            while oid in seen:
                oid = f"{unit_name}/{o['fn']}/{o['name']}~{n_}"
                n_ += 1
            seen.add(oid)
            o["oid"] = oid
            A.obligations.append({"id": oid, "fn": o["fn"], "kind": o["kw"], "line": ln, "weight": 2 if o["kw"].startswith("invariant") else 1})
    for ln, o in enumerate(A.origin, 1):
        if o.get("k") == "raw" and o.get("lemma"):
            o["oid"] = f"{unit_name}/{o['fn']}/{o['lemma']}"
            if o.get("lemma_first"):
                A.obligations.append({"id": o["oid"], "fn": o["fn"], "kind": "lemma", "line": ln, "weight": 1})
    for ln, o in enumerate(A.origin, 1):
        if o.get("k") == "ghost" and o.get("assert_name"):
            oid = f"{unit_name}/{o['fn']}/{o['assert_name']}"
            o["oid"] = oid
            A.obligations.append({"id": oid, "fn": o["fn"], "kind": "assert", "line": ln, "weight": 1})
    return A
