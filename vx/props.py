"""Which units decide which property. A failing obligation counts against property P when its name
carries the tag `P.` (e.g. `C18.push-budget`, `C01,C11.conflict-ordered`) or, for untagged
obligations (unnamed invariants, proof steps, body-safety), when P is among the unit's default
properties below, or - for body-safety obligations (call preconditions incl. expect/unwrap,
overflow, bounds, termination) - when the unit is listed in the property's `safety_units`."""

U9 = ["U9a", "U9b", "U9c", "U9d", "U9e", "U9f", "U9g", "U9h"]

# unit -> properties that untagged obligations of the unit count against
UNIT_DEFAULT_PROPS = {
    "U1": ["C13"],
    "U2": ["C11"],
    "U3": ["C02"],
    "U4": ["C11"],
    "U6": ["C02"],
    "U7": ["C02"],
    "U8": ["C05"],
    "U10": ["C09"],
}
for u in U9:
    UNIT_DEFAULT_PROPS[u] = ["C04"]

U16 = ["U16a", "U16b", "U16c", "U16d", "U16e", "U16f", "U16g", "U16h"]
for u in U16:
    UNIT_DEFAULT_PROPS[u] = ["C04"]

UNIT_DEFAULT_PROPS["U6b"] = ["C04"]
UNIT_DEFAULT_PROPS["U5"] = ["C16", "C11", "C12"]
UNIT_DEFAULT_PROPS["U12"] = ["C12"]
UNIT_DEFAULT_PROPS["U11"] = ["C14"]
UNIT_DEFAULT_PROPS["U13"] = ["C17"]
UNIT_DEFAULT_PROPS["U10b"] = ["C09"]
UNIT_DEFAULT_PROPS["U17"] = ["C08"]
UNIT_DEFAULT_PROPS["U18"] = ["C09"]
UNIT_DEFAULT_PROPS["U19"] = ["C09"]
UNIT_DEFAULT_PROPS["U15"] = ["C02"]
UNIT_DEFAULT_PROPS["U20"] = ["C04"]
UNIT_DEFAULT_PROPS["U21"] = ["C06"]
UNIT_DEFAULT_PROPS["U21b"] = ["C06"]
UNIT_DEFAULT_PROPS["U22"] = ["C04"]
UNIT_DEFAULT_PROPS["U23"] = ["C02"]
UNIT_DEFAULT_PROPS["U24"] = ["C04"]

RUNTIME = ["U6", "U6b", "U7", "U8"] + U9
# every unit of the run-time side: setup, queuer, stream poll, item closures, prologues, options builder
RUNTIME_ALL = ["U6", "U6b", "U7", "U8"] + U9 + U16 + ["U17", "U23", "U24"]

# property -> units run (all feature sets of the unit), units whose panic-freedom counts for it.
# The unit lists are deliberately broad (everything the property's argument passes through): a failing obligation of
# a listed unit that is tagged for OTHER properties makes this property UNDECIDED (foreign failure) and starts the
# bounded native search, instead of being ignored.
PROPS = {
    "C01": {"units": ["U2", "U3", "U4", "U5", "U15", "U20", "U21", "U21b"] + RUNTIME_ALL},
    "C02": {"units": ["U3", "U4", "U5", "U15", "U20", "U22"] + RUNTIME_ALL, "safety_units": ["U6", "U7"]},
    "C03": {"units": ["U3", "U4", "U5", "U15", "U19", "U20", "U22"] + RUNTIME_ALL},
    "C14": {"units": ["U4", "U11", "U20", "U22"], "safety_units": ["U11"]},
    "C15": {"units": RUNTIME_ALL + ["U10", "U10b", "U18", "U19"]},
    "C04": {"units": ["U3", "U4", "U5", "U15", "U20", "U22", "U10b", "U18"] + RUNTIME_ALL, "safety_units": ["U6", "U6b", "U7", "U20", "U22", "U10b", "U18"] + U9 + U16},
    "C05": {"units": ["U3", "U4", "U6", "U6b", "U8", "U22"], "safety_units": ["U6", "U8"]},
    "C06": {"units": ["U2", "U3", "U4", "U5", "U6", "U6b", "U7", "U8", "U15", "U21", "U21b", "U24"]},
    "C07": {"units": ["U10b", "U18"] + RUNTIME_ALL},
    "C08": {"units": ["U10", "U10b"] + RUNTIME_ALL, "safety_units": ["U17"]},
    "C09": {"units": ["U10", "U10b", "U18", "U19"] + RUNTIME_ALL, "safety_units": ["U10", "U10b", "U18", "U19"]},
    "C20": {"units": RUNTIME_ALL + ["U10", "U10b", "U18", "U19"]},
    "C10": {"units": RUNTIME_ALL},
    "C11": {"units": ["U1", "U2", "U3", "U4", "U5", "U19", "U20", "U21b"], "safety_units": ["U1", "U2", "U3", "U4", "U5"]},
    "C12": {"units": ["U1", "U2", "U4", "U5", "U12"], "safety_units": ["U12"]},
    "C13": {"units": ["U1", "U4", "U20"]},
    "C16": {"units": ["U5", "U20"], "safety_units": ["U5"]},
    "C17": {"units": ["U13"], "safety_units": ["U13"]},
    "C18": {"units": ["U1", "U2", "U3", "U4"]},
    "C19": {"units": []},
}


# ---- unverified glue (tools/glue.py): which properties' arguments pass through the uncovered text of a function ----
import re as _re

_RUNTIME_PROPS = ["C01", "C02", "C03", "C04", "C05", "C06", "C07", "C08", "C09", "C10", "C15", "C20"]


def glue_props(file, fn):
    if file in ("Cargo.toml", "Cargo.lock"):
        return ["C%02d" % i for i in range(1, 21)]
    if file == "src/fn_graph.rs":
        if _re.match(r'FnGraph::(iter|iter_rev|iter_insertion\w*|map|fold|try_fold|for_each|try_for_each|toposort)(#\d+)?$', fn):
            return ["C14"]
        if _re.match(r'FnGraph::ranks', fn):
            return ["C13"]
        return _RUNTIME_PROPS + ["C14"] if fn.startswith("FnGraph<") or fn.startswith("FnGraph::new") else _RUNTIME_PROPS
    if file.startswith("src/fn_graph_builder"):
        return ["C01", "C06", "C11", "C12", "C13", "C16", "C18"]
    if file in ("src/graph_info.rs", "src/edge.rs", "src/fn_id_inner.rs", "src/fn_id.rs"):
        return ["C17"] + (["C11", "C16"] if file != "src/graph_info.rs" else [])
    if file == "src/stream_opts.rs":
        return ["C02", "C08"]
    if file == "src/stream_outcome.rs":
        return ["C07", "C09"]
    if file in ("src/fn_ref.rs", "src/fn_wrapper.rs", "src/fn_wrapper_mut.rs"):
        return ["C04", "C05"]
    if file.startswith("src/data_access"):
        return ["C01", "C06", "C11"]
    if file == "src/rank.rs":
        return ["C13", "C12"]
    if file == "src/edge_counts.rs":
        return ["C02", "C03", "C15"]
    return []
