"""Which units decide which property. A failing obligation counts against property P when its name
carries the tag `P.` (e.g. `C18.push-budget`, `C01,C11.conflict-ordered`) or, for untagged
obligations, when P is among the unit's default properties below."""

# unit -> properties that untagged obligations of the unit count against
UNIT_DEFAULT_PROPS = {
    "U1": ["C13"],
    "U2": ["C11"],
}

# property -> units (all feature sets of the unit are run) + extra engines
PROPS = {
    "C11": {"units": ["U2"]},
    "C13": {"units": ["U1"]},
    "C18": {"units": ["U1"]},
    "C19": {"units": []},
}

# feature sets per unit come from units/<U>/unit.json ("feature_sets")
