import sys, json, os, subprocess
sys.path.insert(0, os.path.dirname(os.path.abspath(__file__)))
from assemble import *
u = sys.argv[1]
ud = os.path.join(VERIF, "units", u)
cfg = json.load(open(os.path.join(ud, "unit.json")))
os.makedirs(os.path.join(VERIF, "out"), exist_ok=True)
ex = run_extract(os.environ.get("VX_REPO","/repo"), cfg["feature_sets"][0], cfg["items"], os.path.join(VERIF, "out"))
try:
    pass
except Exception:
    pass
A = assemble_unit(u, ud, cfg, ex, [os.path.join(VERIF, "prelude", p) for p in cfg["prelude"]], canary="--canary" in sys.argv)
p = os.path.join(VERIF, "out", u + ".rs")
open(p, "w").write(A.text())
r = subprocess.run(["verus", p, "--multiple-errors", "20"] + [a for a in sys.argv[2:] if a != "--canary"], capture_output=True, text=True)
print(r.stdout[-3000:]); print(r.stderr[-12000:])
