import sys, json, os, subprocess
sys.path.insert(0, os.path.dirname(os.path.abspath(__file__)))
from assemble import *
u = sys.argv[1]
ud = os.path.join(VERIF, "units", u)
cfg = json.load(open(os.path.join(ud, "unit.json")))
fsi = int(os.environ.get("VX_FS", "0"))
features = cfg["feature_sets"][fsi]
os.makedirs(os.path.join(VERIF, "out"), exist_ok=True)
items_ = unit_items(cfg, features)
ex = run_extract(os.environ.get("VX_REPO","/repo"), features, items_, os.path.join(VERIF, "out"))
import driver as _drv
_bad = _drv.cfg_coverage(cfg, items_, ex)
if _bad:
    print("UNDECIDED (cfg coverage)", _bad)
preludes = [os.path.join(VERIF, "prelude", p) for p in cfg["prelude"]]
for feat, extra in cfg.get("prelude_if", {}).items():
    if feat in features:
        preludes += [os.path.join(VERIF, "prelude", p) for p in extra]
for feat, extra in cfg.get("prelude_unless", {}).items():
    if feat not in features:
        preludes += [os.path.join(VERIF, "prelude", p) for p in extra]
try:
    A = assemble_unit(u, ud, cfg, ex, preludes, canary="--canary" in sys.argv, features=features)
except Undecided as e:
    print("UNDECIDED", e.reason, e.detail); sys.exit(2)
p = os.path.join(VERIF, "out", u + ".rs")
open(p, "w").write(A.text())
r = subprocess.run(["verus", p, "--multiple-errors", "20"] + [a for a in sys.argv[2:] if a != "--canary"], capture_output=True, text=True)
print(r.stdout[-3000:]); print(r.stderr[-12000:])
