// ===== prelude/channels.rs — tokio mpsc / ghost protocol state, ASSUMED contracts (DESIGN §4, §5) =====
// Every effect on a channel is recorded in the ghost `World` of the run. All histories are monotone
// (sequences only grow, sets only gain members), so facts established about them survive interference.

pub ghost struct Chan {
    pub sent: Seq<int>,     // ids accepted by the channel so far, in order
    pub recvd: int,         // how many of them the receiver has taken out (a prefix of `sent`)
    pub cap: int,           // capacity given to mpsc::channel
    pub rx_alive: bool,     // receiver not dropped / closed
    pub senders: int,       // live Sender handles
    pub waker: bool,        // the polling task's waker is registered with this channel's receiver
    pub closed_seen: bool,  // poll_recv returned Ready(None)
}

pub tracked struct World {
    pub ghost n: int,               // number of functions of the run
    pub ghost es: Seq<EdgeV>,       // edges of the structure walked by the run (forward or reversed)
    pub ghost ready: Chan,          // queuer -> scheduler: ids whose predecessors are all done
    pub ghost done: Chan,           // scheduler / FnRef::drop -> queuer: ids that finished
    pub ghost done_recv: Set<int>,  // ids whose done notification has been processed by the queuer side
    pub ghost handed: Seq<int>,     // ids taken out of the ready channel (= handed to the caller), in order
    pub ghost trace: Seq<Ev>,       // what the current item closure did so far, in order (local to the item: exact)
    pub ghost ticket: bool,         // the current item was handed out and has not decremented fns_remaining yet
    pub ghost done_tx_gone: bool,   // the scheduler's done sender was taken out of its cell (monotone)
    pub ghost chans_created: int,   // mpsc::channel calls so far in this run (0: ready channel, 1: done channel)
    pub ghost self_woken: bool,     // a poll of a tokio primitive returned Pending although it could have made progress (tokio's
                                    // cooperative budget was used up): tokio then schedules a wake-up of the task by itself - deferred to
                                    // the moment the task yields - so the task is polled again without any channel event (monotone;
                                    // audited on a real runtime by audit_deps A11)
}

// ---- per-item event trace and stable facts (used by the item closures, DESIGN §5) ----
pub ghost enum Ev {
    UserStart,            // the user's closure was called for this item (its future was created)
    UserEnd,              // the user's future resolved (try variants: with Ok)
    UserFail,             // try variants: the user's future resolved with Err / Break
    DoneSend(int),        // the item's id was sent on the done channel
    ErrSend,              // the item's error was sent on the result channel
    DoneTxDrop,           // the scheduler's done sender was released
    Decrement,            // fns_remaining was decremented
}

pub open spec fn trace(w: World) -> Seq<Ev> { w.trace }
/// this item holds a "ticket": it was handed out and has not decremented fns_remaining yet
pub open spec fn ticket(w: World) -> bool { w.ticket }
/// the scheduler's done sender has been taken out of its cell (monotone: it is never put back)
pub open spec fn done_tx_gone(w: World) -> bool { w.done_tx_gone }

/// facts that survive every suspension point and every effect that is not about them
pub open spec fn keeps(w0: World, w1: World) -> bool {
    &&& ticket(w1) == ticket(w0)
    &&& (done_tx_gone(w0) ==> done_tx_gone(w1))
}


/// C02 for one item: a done notification is sent only after the user's future resolved successfully
pub open spec fn done_only_after_user_end(t: Seq<Ev>) -> bool {
    forall|i: int| 0 <= i < t.len() && (#[trigger] t[i]) is DoneSend ==> exists|j: int| 0 <= j < i && t[j] == Ev::UserEnd
}

pub spec const READY: int = 0;
pub spec const DONE: int = 1;

#[verifier::external_body]
#[verifier::reject_recursive_types(T)]
pub struct Sender<T> { _p: PhantomData<T> }

#[verifier::external_body]
#[verifier::reject_recursive_types(T)]
pub struct Receiver<T> { _p: PhantomData<T> }

#[verifier::external_body]
#[verifier::reject_recursive_types(T)]
pub struct TrySendError<T> { _p: PhantomData<T> }

#[verifier::external_body]
pub struct Context { _p: usize }

pub enum Poll<T> {
    Ready(T),
    Pending,
}

impl<T> Sender<T> {
    pub uninterp spec fn chan(&self) -> int;
}
impl<T> Receiver<T> {
    pub uninterp spec fn chan(&self) -> int;
}

pub open spec fn chan_send(c: Chan, v: int) -> Chan {
    Chan { sent: c.sent.push(v), ..c }
}

pub open spec fn chan_can_send(c: Chan) -> bool {
    c.rx_alive && c.sent.len() - c.recvd < c.cap
}

impl Sender<NodeIndex<FnIdInner>> {
    /// tokio `Sender::try_send`: succeeds iff the receiver is alive and the channel is not full
    #[verifier::external_body]
    pub fn try_send(&self, v: NodeIndex<FnIdInner>, Tracked(w): Tracked<&mut World>) -> (r: Result<(), TrySendError<NodeIndex<FnIdInner>>>)
        requires self.chan() == READY || self.chan() == DONE,
        ensures
            self.chan() == READY ==> (
                if chan_can_send(old(w).ready) { r is Ok && *final(w) == (World { ready: chan_send(old(w).ready, v.0.0 as int), ..*old(w) }) }
                else { r is Err && *final(w) == *old(w) }),
            self.chan() == DONE ==> (
                if chan_can_send(old(w).done) { r is Ok && *final(w) == (World { done: chan_send(old(w).done, v.0.0 as int), ..*old(w) }) }
                else { r is Err && *final(w) == *old(w) }),
    { unimplemented!() }
}

/// R6: a `Sender` handle that is discarded (`x.take();`, end of scope) is dropped explicitly
#[verifier::external_body]
pub fn vx_drop_sender_opt<T>(x: Option<Sender<T>>, Tracked(w): Tracked<&mut World>)
    ensures
        x is None ==> *final(w) == *old(w),
        x is Some && x->Some_0.chan() == READY ==> *final(w) == (World { ready: Chan { senders: old(w).ready.senders - 1, ..old(w).ready }, ..*old(w) }),
        x is Some && x->Some_0.chan() == DONE ==> *final(w) == (World { done: Chan { senders: old(w).done.senders - 1, ..old(w).done }, ..*old(w) }),
        x is Some && x->Some_0.chan() != READY && x->Some_0.chan() != DONE ==> *final(w) == *old(w),
{ unimplemented!() }

pub open spec fn seq_has_int(s: Seq<int>, v: int) -> bool {
    exists|i: int| 0 <= i < s.len() && #[trigger] s[i] == v
}

pub open spec fn no_dup(s: Seq<int>) -> bool {
    forall|i: int, j: int| 0 <= i < j < s.len() ==> #[trigger] s[i] != #[trigger] s[j]
}

/// a duplicate-free sequence of ids below n has at most n elements (pigeonhole)
pub proof fn lemma_distinct_bounded(s: Seq<int>, n: int)
    requires no_dup(s), forall|i: int| 0 <= i < s.len() ==> 0 <= #[trigger] s[i] < n, n >= 0,
    ensures s.len() <= n,
    decreases n,
{
    if s.len() == 0 {
    } else if n == 0 {
        let x = s[0];
        assert(0 <= x && x < n);
    } else {
        // remove the occurrence of n-1 (if any) and recurse on n-1
        if seq_has_int(s, n - 1) {
            let k = choose|k: int| 0 <= k < s.len() && #[trigger] s[k] == n - 1;
            let t = s.remove(k);
            assert forall|i: int| 0 <= i < t.len() implies 0 <= #[trigger] t[i] < n - 1 by {
                if i < k { assert(t[i] == s[i]); assert(s[i] != s[k]); } else { assert(t[i] == s[i + 1]); assert(s[k] != s[i + 1]); }
            }
            assert(no_dup(t)) by {
                assert forall|i: int, j: int| 0 <= i < j < t.len() implies #[trigger] t[i] != #[trigger] t[j] by {
                    let i2 = if i < k { i } else { i + 1 };
                    let j2 = if j < k { j } else { j + 1 };
                    assert(t[i] == s[i2] && t[j] == s[j2]);
                    assert(s[i2] != s[j2]);
                }
            }
            lemma_distinct_bounded(t, n - 1);
        } else {
            assert forall|i: int| 0 <= i < s.len() implies 0 <= #[trigger] s[i] < n - 1 by {
                if s[i] == n - 1 { assert(seq_has_int(s, n - 1)); }
            }
            lemma_distinct_bounded(s, n - 1);
        }
    }
}
