// ===== prelude/topo.rs — petgraph::visit::Topo, ASSUMED contract =====
/// a topological order of the structure (petgraph `Topo`): every node exactly once, sources before targets
pub open spec fn is_topo_order_of(n: int, es: Seq<EdgeV>, order: Seq<int>) -> bool {
    &&& is_perm(order, n)
    &&& forall|e: int, i: int, j: int| #![trigger es[e], order[i], order[j]]
            0 <= e < es.len() && 0 <= i < order.len() && 0 <= j < order.len() && order[i] == es[e].src && order[j] == es[e].dst ==> i < j
}

pub open spec fn is_topo_order<N>(g: &Dag<N, Edge, FnIdInner>, order: Seq<int>) -> bool {
    is_topo_order_of(g.n() as int, g.edges(), order)
}

/// what petgraph's Topo can walk: a Dag by reference, or `Reversed(&dag)` (every edge seen from target to source)
pub trait VxWalkable {
    spec fn vx_n(&self) -> int;
    spec fn vx_edges(&self) -> Seq<EdgeV>;
    spec fn vx_wf(&self) -> bool;
    spec fn vx_is_topo(&self, order: Seq<int>) -> bool;
}

impl<'a, N> VxWalkable for &'a Dag<N, Edge, FnIdInner> {
    open spec fn vx_n(&self) -> int { self.n() as int }
    open spec fn vx_edges(&self) -> Seq<EdgeV> { self.edges() }
    open spec fn vx_wf(&self) -> bool { self.wf() }
    open spec fn vx_is_topo(&self, order: Seq<int>) -> bool { is_topo_order(*self, order) }
}

/// petgraph::visit::Reversed
#[derive(Clone, Copy)]
pub struct Reversed<G>(pub G);

pub open spec fn swap_edges(es: Seq<EdgeV>) -> Seq<EdgeV> {
    Seq::new(es.len(), |e: int| EdgeV { src: es[e].dst, dst: es[e].src, kind: es[e].kind })
}

impl<'a, N> VxWalkable for Reversed<&'a Dag<N, Edge, FnIdInner>> {
    open spec fn vx_n(&self) -> int { self.0.n() as int }
    open spec fn vx_edges(&self) -> Seq<EdgeV> { swap_edges(self.0.edges()) }
    open spec fn vx_wf(&self) -> bool { self.0.wf() }
    open spec fn vx_is_topo(&self, order: Seq<int>) -> bool { is_topo_order_of(self.0.n() as int, swap_edges(self.0.edges()), order) }
}

#[verifier::external_body]
pub struct Topo { _p: usize }

impl Topo {
    pub uninterp spec fn order(&self) -> Seq<int>;
    /// how many nodes `next` has yielded so far
    pub uninterp spec fn pos(&self) -> int;

    /// `Topo::next(g)`: the next node of the order, None after the last
    #[verifier::external_body]
    pub fn next<N>(&mut self, g: &Dag<N, Edge, FnIdInner>) -> (r: Option<NodeIndex<FnIdInner>>)
        ensures
            final(self).order() == old(self).order(),
            old(self).pos() < old(self).order().len() ==> r is Some && r->Some_0.0.0 == old(self).order()[old(self).pos()] && final(self).pos() == old(self).pos() + 1,
            old(self).pos() >= old(self).order().len() ==> r is None && final(self).pos() == old(self).pos(),
    { unimplemented!() }

    /// petgraph::visit::Topo::new(g)
    #[verifier::external_body]
    pub fn new<G: VxWalkable>(g: G) -> (r: Topo)
        requires g.vx_wf(),
        ensures g.vx_is_topo(r.order()), r.pos() == 0,
    { unimplemented!() }

    /// `Walker::iter(self, g)`: yields the nodes in this topological order
    #[verifier::external_body]
    pub fn iter<G: VxWalkable>(self, g: G) -> (r: VxIter<NodeIndex<FnIdInner>>)
        requires self.pos() == 0,
        ensures r.rest().len() == self.order().len(), forall|i: int| 0 <= i < self.order().len() ==> (#[trigger] r.rest()[i]).0.0 == self.order()[i],
    { unimplemented!() }
}

