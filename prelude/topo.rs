// ===== prelude/topo.rs — petgraph::visit::Topo, ASSUMED contract =====
/// a topological order of the structure (petgraph `Topo`): every node exactly once, sources before targets
pub open spec fn is_topo_order<N>(g: &Dag<N, Edge, FnIdInner>, order: Seq<int>) -> bool {
    &&& is_perm(order, g.n() as int)
    &&& forall|e: int, i: int, j: int| #![trigger g.edges()[e], order[i], order[j]]
            0 <= e < g.edges().len() && 0 <= i < order.len() && 0 <= j < order.len() && order[i] == g.edges()[e].src && order[j] == g.edges()[e].dst ==> i < j
}

#[verifier::external_body]
pub struct Topo { _p: usize }

impl Topo {
    pub uninterp spec fn order(&self) -> Seq<int>;
    /// how many nodes `next` has yielded so far
    pub uninterp spec fn pos(&self) -> int;

    /// `Topo::next(g)`: the next node of the order, None after the last
    #[verifier::external_body]
    pub fn next<N>(&mut self, g: &Dag<N, Edge, FnIdInner>) -> (r: Option<NodeIndex<FnIdInner>>)
        ensures
            final(self).order() == old(self).order(),
            old(self).pos() < old(self).order().len() ==> r is Some && r->Some_0.0.0 == old(self).order()[old(self).pos()] && final(self).pos() == old(self).pos() + 1,
            old(self).pos() >= old(self).order().len() ==> r is None && final(self).pos() == old(self).pos(),
    { unimplemented!() }

    /// petgraph::visit::Topo::new(g)
    #[verifier::external_body]
    pub fn new<N>(g: &Dag<N, Edge, FnIdInner>) -> (r: Topo)
        requires g.wf(),
        ensures is_topo_order(g, r.order()), r.pos() == 0,
    { unimplemented!() }

    /// `Walker::iter(self, g)`: yields the nodes in this topological order
    #[verifier::external_body]
    pub fn iter<N>(self, g: &Dag<N, Edge, FnIdInner>) -> (r: VxIter<NodeIndex<FnIdInner>>)
        requires self.pos() == 0,
        ensures r.rest().len() == self.order().len(), forall|i: int| 0 <= i < self.order().len() ==> (#[trigger] r.rest()[i]).0.0 == self.order()[i],
    { unimplemented!() }
}

