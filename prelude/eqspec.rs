// ===== prelude/eqspec.rs — pieces used by `impl PartialEq for FnGraph` =====
use std::ops::ControlFlow;

// ASSUMED: the derived PartialEq of the field-less enum `Edge` is variant equality (std derive contract)
impl vstd::std_specs::cmp::PartialEqSpecImpl for Edge {
    open spec fn obeys_eq_spec() -> bool { true }
    open spec fn eq_spec(&self, other: &Edge) -> bool { *self == *other }
}

/// the oracle of C12's last sentence: two graphs compare equal iff they have the same number of functions, the same
/// edge list (source, target and kind, position by position) and pairwise equal functions in insertion order
pub open spec fn graphs_equal<F: PartialEq>(a: &FnGraph<F>, b: &FnGraph<F>) -> bool {
    &&& a.graph.n() == b.graph.n()
    &&& a.graph.edges().len() == b.graph.edges().len()
    &&& forall|e: int| 0 <= e < a.graph.edges().len() ==> #[trigger] a.graph.edges()[e] == b.graph.edges()[e]
    &&& forall|i: int| 0 <= i < a.graph.n() ==> (#[trigger] a.graph.weights()[i]).eq_spec(&b.graph.weights()[i])
}
