// ===== prelude/stream_opts.rs — the two `interruptible` types StreamOpts stores (opaque; ASSUMED) =====
/// interruptible::InterruptibilityState: opaque here; `non_interruptible()` tells whether it was built from
/// `Interruptibility::NonInterruptible`
#[verifier::external_body]
pub struct InterruptibilityState<'rx, 'intx> { _p: core::marker::PhantomData<&'intx &'rx ()> }

impl<'rx, 'intx> InterruptibilityState<'rx, 'intx> {
    pub uninterp spec fn non_interruptible(&self) -> bool;
}

/// interruptible::Interruptibility (only the variant fn_graph itself names is distinguished)
pub enum Interruptibility<'rx> {
    NonInterruptible,
    Other(core::marker::PhantomData<&'rx ()>),
}

impl<'rx> Interruptibility<'rx> {
    /// `Interruptibility::into()` (R-rename `into` -> `vx_into_state`): `From<Interruptibility> for InterruptibilityState`
    #[verifier::external_body]
    pub fn vx_into_state<'intx>(self) -> (r: InterruptibilityState<'rx, 'intx>)
        ensures r.non_interruptible() == (self is NonInterruptible),
    { unimplemented!() }
}
