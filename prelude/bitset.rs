// ===== prelude/bitset.rs — fixedbitset::FixedBitSet (a dependency of the crate), ASSUMED contracts = its documentation =====
#[verifier::external_body]
pub struct FixedBitSet { _p: usize }

impl FixedBitSet {
    pub uninterp spec fn view(&self) -> Seq<bool>;

    /// all bits false
    #[verifier::external_body]
    pub fn with_capacity(bits: usize) -> (r: FixedBitSet)
        ensures r@ == Seq::new(bits as nat, |i: int| false),
    { unimplemented!() }

    /// panics if bit is out of bounds
    #[verifier::external_body]
    pub fn set(&mut self, bit: usize, enabled: bool)
        requires bit < old(self)@.len(),
        ensures final(self)@ == old(self)@.update(bit as int, enabled),
    { unimplemented!() }

    /// sets the bit, returns its previous value; panics if out of bounds
    #[verifier::external_body]
    pub fn put(&mut self, bit: usize) -> (r: bool)
        requires bit < old(self)@.len(),
        ensures r == old(self)@[bit as int], final(self)@ == old(self)@.update(bit as int, true),
    { unimplemented!() }

    /// panics if out of bounds
    #[verifier::external_body]
    pub fn insert(&mut self, bit: usize)
        requires bit < old(self)@.len(),
        ensures final(self)@ == old(self)@.update(bit as int, true),
    { unimplemented!() }

    /// false when out of bounds
    #[verifier::external_body]
    pub fn contains(&self, bit: usize) -> (r: bool)
        ensures r == (bit < self@.len() && self@[bit as int]),
    { unimplemented!() }

    #[verifier::external_body]
    pub fn clear(&mut self)
        ensures final(self)@ == Seq::new(old(self)@.len(), |i: int| false),
    { unimplemented!() }
}
