// ===== prelude/cnt.rs — counting edges by a predicate; all lemmas PROVED =====

/// number of indices e in [0, m) with p(e)
pub open spec fn cnt(m: int, p: spec_fn(int) -> bool) -> int
    decreases m,
{
    if m <= 0 { 0 } else { cnt(m - 1, p) + if p(m - 1) { 1int } else { 0int } }
}

pub proof fn lemma_cnt_bounds(m: int, p: spec_fn(int) -> bool)
    ensures 0 <= cnt(m, p), m >= 0 ==> cnt(m, p) <= m,
    decreases m,
{
    if m > 0 { lemma_cnt_bounds(m - 1, p); }
}

pub proof fn lemma_cnt_ext(m: int, p: spec_fn(int) -> bool, q: spec_fn(int) -> bool)
    requires forall|e: int| 0 <= e < m ==> #[trigger] p(e) == q(e),
    ensures cnt(m, p) == cnt(m, q),
    decreases m,
{
    if m > 0 { lemma_cnt_ext(m - 1, p, q); }
}

/// q holds at one more index (e0) than p
pub proof fn lemma_cnt_add(m: int, p: spec_fn(int) -> bool, q: spec_fn(int) -> bool, e0: int)
    requires
        0 <= e0 < m, !p(e0), q(e0),
        forall|e: int| 0 <= e < m && e != e0 ==> #[trigger] p(e) == q(e),
    ensures cnt(m, q) == cnt(m, p) + 1,
    decreases m,
{
    if m - 1 == e0 {
        lemma_cnt_ext(m - 1, p, q);
    } else {
        lemma_cnt_add(m - 1, p, q, e0);
    }
}

pub proof fn lemma_cnt_zero(m: int, p: spec_fn(int) -> bool)
    ensures cnt(m, p) == 0 <==> (forall|e: int| 0 <= e < m ==> !#[trigger] p(e)),
    decreases m,
{
    if m > 0 {
        lemma_cnt_zero(m - 1, p);
        lemma_cnt_bounds(m - 1, p);
        if cnt(m, p) == 0 {
            assert forall|e: int| 0 <= e < m implies !#[trigger] p(e) by { }
        }
    }
}

/// number of edges entering c / leaving c
pub open spec fn indeg(es: Seq<EdgeV>, c: int) -> int {
    cnt(es.len() as int, |e: int| es[e].dst == c)
}

pub open spec fn outdeg(es: Seq<EdgeV>, c: int) -> int {
    cnt(es.len() as int, |e: int| es[e].src == c)
}

pub open spec fn in_prefix(s: Seq<int>, k: int, e: int) -> bool {
    exists|j: int| 0 <= j < k && 0 <= j < s.len() && #[trigger] s[j] == e
}

/// out_edges / in_edges are strictly decreasing, hence duplicate-free
pub proof fn lemma_out_edges_distinct(es: Seq<EdgeV>, a: int)
    ensures
        forall|i: int| 0 <= i < out_edges(es, a).len() ==> 0 <= #[trigger] out_edges(es, a)[i] < es.len(),
        forall|i: int, j: int| 0 <= i < j < out_edges(es, a).len() ==> #[trigger] out_edges(es, a)[i] > #[trigger] out_edges(es, a)[j],
    decreases es.len(),
{
    if es.len() > 0 {
        let k = es.len() - 1;
        let pre = es.drop_last();
        lemma_out_edges_distinct(pre, a);
        let r = out_edges(pre, a);
        let o = out_edges(es, a);
        if es[k].src == a {
            assert(o =~= seq![k as int] + r);
            assert forall|i: int, j: int| 0 <= i < j < o.len() implies #[trigger] o[i] > #[trigger] o[j] by {
                assert(o[j] == r[j - 1]);
                if i > 0 { assert(o[i] == r[i - 1]); }
            }
            assert forall|i: int| 0 <= i < o.len() implies 0 <= #[trigger] o[i] < es.len() by {
                if i > 0 { assert(o[i] == r[i - 1]); }
            }
        } else {
            assert(o =~= r);
        }
    }
}

pub proof fn lemma_in_edges_distinct(es: Seq<EdgeV>, a: int)
    ensures
        forall|i: int| 0 <= i < in_edges(es, a).len() ==> 0 <= #[trigger] in_edges(es, a)[i] < es.len(),
        forall|i: int, j: int| 0 <= i < j < in_edges(es, a).len() ==> #[trigger] in_edges(es, a)[i] > #[trigger] in_edges(es, a)[j],
    decreases es.len(),
{
    if es.len() > 0 {
        let k = es.len() - 1;
        let pre = es.drop_last();
        lemma_in_edges_distinct(pre, a);
        let r = in_edges(pre, a);
        let o = in_edges(es, a);
        if es[k].dst == a {
            assert(o =~= seq![k as int] + r);
            assert forall|i: int, j: int| 0 <= i < j < o.len() implies #[trigger] o[i] > #[trigger] o[j] by {
                assert(o[j] == r[j - 1]);
                if i > 0 { assert(o[i] == r[i - 1]); }
            }
            assert forall|i: int| 0 <= i < o.len() implies 0 <= #[trigger] o[i] < es.len() by {
                if i > 0 { assert(o[i] == r[i - 1]); }
            }
        } else {
            assert(o =~= r);
        }
    }
}

pub open spec fn counts_ok(es: Seq<EdgeV>, n: int, incoming: Seq<usize>, outgoing: Seq<usize>) -> bool {
    &&& incoming.len() == n
    &&& outgoing.len() == n
    &&& forall|c: int| 0 <= c < n ==> #[trigger] incoming[c] == indeg(es, c)
    &&& forall|c: int| 0 <= c < n ==> #[trigger] outgoing[c] == outdeg(es, c)
}

