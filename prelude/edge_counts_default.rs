// ===== prelude/edge_counts_default.rs — std's `#[derive(Default)]` on the extracted `EdgeCounts` =====
// ASSUMED (std derive contract): the derived `Default` of a struct is the struct of its fields' defaults; `Vec::default()` is empty.
pub assume_specification [<EdgeCounts as core::default::Default>::default] () -> (r: EdgeCounts)
    ensures r.incoming@.len() == 0 && r.outgoing@.len() == 0;
