// ===== prelude/access_decl.rs — building blocks of the access declarations of `R<T>` / `W<T>` (src/data_access/), ASSUMED =====
impl TypeId {
    /// `core::any::TypeId::of::<T>()`: one id per type (what "the same data type" of the conflict predicate means)
    pub uninterp spec fn of_spec<T>() -> TypeId;

    #[verifier::external_body]
    pub fn of<T>() -> (r: TypeId)
        ensures r == Self::of_spec::<T>(),
    { unimplemented!() }
}

impl TypeIds {
    /// `SmallVec::new()`: no ids
    #[verifier::external_body]
    pub fn new() -> (r: TypeIds)
        ensures r.view().len() == 0,
    { unimplemented!() }

    /// `SmallVec::push`: appends
    #[verifier::external_body]
    pub fn push(&mut self, t: TypeId)
        ensures final(self).view() == old(self).view().push(t),
    { unimplemented!() }
}
