// ===== prelude/entry_imports.rs — names the public entry points' where-clauses use (unit U23) =====
use std::future::Future;
use std::fmt::Debug;

/// the opaque stream type returned by `FnGraph::stream_internal` (`impl Stream<Item = FnRef<'f, F>> + 'f`)
#[verifier::external_body]
#[verifier::reject_recursive_types(F)]
pub struct StreamInternal<'f, F> { _p: core::marker::PhantomData<&'f F> }
