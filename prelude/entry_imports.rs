// ===== prelude/entry_imports.rs — names the public entry points' where-clauses use (unit U23) =====
use std::future::Future;
use std::fmt::Debug;
