// ===== prelude/build.rs — daggy construction API used by build(), ASSUMED contracts (daggy 0.9.0 source read) =====

/// petgraph `Edge<E, Ix>` as exposed by raw_edges(): public `weight`, accessors source()/target()
pub struct RawEdge {
    pub weight: Edge,
    pub vx_src: NodeIndex<FnIdInner>,
    pub vx_dst: NodeIndex<FnIdInner>,
}

impl RawEdge {
    pub fn source(&self) -> (r: NodeIndex<FnIdInner>)
        ensures r == self.vx_src,
    { self.vx_src }

    pub fn target(&self) -> (r: NodeIndex<FnIdInner>)
        ensures r == self.vx_dst,
    { self.vx_dst }
}

pub open spec fn raw_edge_is(r: &RawEdge, e: EdgeV) -> bool {
    r.weight == e.kind && r.vx_src.0.0 == e.src && r.vx_dst.0.0 == e.dst
}

#[verifier::external_body]
pub struct RawNodes { _p: usize }
#[verifier::external_body]
pub struct RawEdges { _p: usize }
#[verifier::external_body]
pub struct RawNode { _p: usize }

impl RawNodes {
    pub uninterp spec fn len(&self) -> nat;
    /// `<[Node<N>]>::iter`
    #[verifier::external_body]
    pub fn vx_iter(&self) -> (r: VxIter<&RawNode>)
        ensures r.rest().len() == self.len(),
    { unimplemented!() }
}

impl RawEdges {
    pub uninterp spec fn es(&self) -> Seq<EdgeV>;
    /// `<[Edge<E>]>::iter`: the edges in index (insertion) order
    #[verifier::external_body]
    pub fn vx_iter(&self) -> (r: VxIter<&RawEdge>)
        ensures r.rest().len() == self.es().len(), forall|i: int| 0 <= i < self.es().len() ==> raw_edge_is(#[trigger] r.rest()[i], self.es()[i]),
    { unimplemented!() }
}

impl<N> Dag<N, Edge, FnIdInner> {
    /// `Dag::new()`: no nodes, no edges
    #[verifier::external_body]
    pub fn new() -> (r: Self)
        ensures r.wf(), r.n() == 0, r.edges().len() == 0, r.weights().len() == 0, r.edges() == Seq::<EdgeV>::empty(), r.weights() == Seq::<N>::empty(),
    { unimplemented!() }

    /// `<Dag as Default>::default()` (daggy lib.rs: `Dag::new()`)
    #[verifier::external_body]
    pub fn default() -> (r: Self)
        ensures r.wf(), r.n() == 0, r.edges().len() == 0, r.weights().len() == 0, r.edges() == Seq::<EdgeV>::empty(), r.weights() == Seq::<N>::empty(),
    { unimplemented!() }

    /// `Dag::add_node`: appends the weight, returns the new index
    #[verifier::external_body]
    pub fn add_node(&mut self, w: N) -> (r: NodeIndex<FnIdInner>)
        requires old(self).wf(), old(self).n() < usize::MAX,
        ensures
            final(self).wf(), r.0.0 == old(self).n(), final(self).n() == old(self).n() + 1,
            final(self).weights() == old(self).weights().push(w), final(self).edges() == old(self).edges(),
    { unimplemented!() }

    /// `Dag::add_edge` (daggy lib.rs): WouldCycle iff a == b or b already reaches a; otherwise the edge is
    /// appended (parallel edges allowed); the graph is untouched on Err. Panics if an index is out of bounds.
    #[verifier::external_body]
    pub fn add_edge(&mut self, a: NodeIndex<FnIdInner>, b: NodeIndex<FnIdInner>, k: Edge) -> (r: Result<EdgeIndex<FnIdInner>, WouldCycle<Edge>>)
        requires old(self).wf(), a.0.0 < old(self).n(), b.0.0 < old(self).n(), old(self).edges().len() < usize::MAX,
        ensures
            final(self).wf(),
            final(self).n() == old(self).n(),
            final(self).weights() == old(self).weights(),
            (a.0.0 == b.0.0 || reach(old(self).edges(), b.0.0 as int, a.0.0 as int)) ==> r.is_err() && final(self).edges() == old(self).edges(),
            !(a.0.0 == b.0.0 || reach(old(self).edges(), b.0.0 as int, a.0.0 as int)) ==> r.is_ok() && r.unwrap().0.0 == old(self).edges().len()
                && final(self).edges() == old(self).edges().push(EdgeV { src: a.0.0 as int, dst: b.0.0 as int, kind: k }),
    { unimplemented!() }

    /// `Dag::raw_nodes()` / `raw_edges()`: the node / edge arrays in index order
    #[verifier::external_body]
    pub fn raw_nodes(&self) -> (r: &RawNodes)
        ensures r.len() == self.n(),
    { unimplemented!() }

    #[verifier::external_body]
    pub fn raw_edges(&self) -> (r: &RawEdges)
        ensures r.es() == self.edges(),
    { unimplemented!() }
}

/// edge list b is edge list a with every edge's endpoints swapped (same order, same kinds)
pub open spec fn reversed_edges(a: Seq<EdgeV>, b: Seq<EdgeV>) -> bool {
    &&& a.len() == b.len()
    &&& forall|e: int| 0 <= e < a.len() ==> (#[trigger] b[e]).src == a[e].dst && b[e].dst == a[e].src && b[e].kind == a[e].kind
}

/// a path cannot go down a numbering that strictly increases along every edge
pub proof fn lemma_path_numbering(es: Seq<EdgeV>, f: spec_fn(int) -> int, p: Seq<int>)
    requires
        forall|e: int| 0 <= e < es.len() ==> f((#[trigger] es[e]).src) < f(es[e].dst),
        is_path(es, p),
    ensures f(p[0]) <= f(p.last()),
    decreases p.len(),
{
    if p.len() > 1 {
        let q = p.drop_last();
        assert(is_path(es, q)) by {
            assert forall|t: int| 0 <= t < q.len() - 1 implies #[trigger] has_edge(es, q[t], q[t + 1]) by {
                assert(q[t] == p[t] && q[t + 1] == p[t + 1]);
                assert(has_edge(es, p[t], p[t + 1]));
            }
        }
        lemma_path_numbering(es, f, q);
        let t = p.len() - 2;
        assert(has_edge(es, p[t], p[t + 1]));
        let e = choose|e: int| 0 <= e < es.len() && #[trigger] es[e].src == p[t] && es[e].dst == p[t + 1];
        assert(f(es[e].src) < f(es[e].dst));
        assert(q.last() == p[t]);
        assert(q[0] == p[0]);
    }
}

