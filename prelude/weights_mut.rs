// ===== prelude/weights_mut.rs — assumed contract of daggy's `Dag::node_weights_mut` (used by the *_mut prologues and iter_insertion_mut) =====
impl<N> Dag<N, Edge, FnIdInner> {
    /// `Dag::node_weights_mut()`: one `&mut` per node weight, in index order
    #[verifier::external_body]
    pub fn node_weights_mut(&mut self) -> (r: VxIter<&mut N>)
        ensures r.rest().len() == old(self).n(), final(self).n() == old(self).n(), final(self).edges() == old(self).edges(),
    { unimplemented!() }
}
