use vstd::std_specs::cmp::OrdSpec as VxOrdSpec;
// ===== prelude/iter.rs — std iterator sources/adapters used by the units, ASSUMED contracts = std documentation =====
// R4: `.iter()` on Vec / slice ranges / TypeIds is renamed `.vx_iter()` and returns this iterator whose ghost
// `rest()` is the sequence still to be yielded. Adapters are treated as evaluated when built (laziness dropped:
// every chain in the units is consumed immediately and its closures are pure).

#[verifier::external_body]
#[verifier::reject_recursive_types(T)]
pub struct VxIter<T> { _p: PhantomData<T> }

impl<T> VxIter<T> {
    pub uninterp spec fn rest(&self) -> Seq<T>;

    /// Iterator::next
    #[verifier::external_body]
    pub fn next(&mut self) -> (r: Option<T>)
        ensures
            old(self).rest().len() == 0 ==> r.is_none() && final(self).rest() == old(self).rest(),
            old(self).rest().len() > 0 ==> r == Some(old(self).rest()[0]) && final(self).rest() == old(self).rest().skip(1),
    { unimplemented!() }

    /// Iterator::enumerate
    #[verifier::external_body]
    pub fn enumerate(self) -> (r: VxIter<(usize, T)>)
        requires self.rest().len() <= usize::MAX,
        ensures r.rest() == Seq::new(self.rest().len(), |i: int| (i as usize, self.rest()[i])),
    { unimplemented!() }

    /// DoubleEndedIterator::rev
    #[verifier::external_body]
    pub fn rev(self) -> (r: VxIter<T>)
        ensures r.rest() == Seq::new(self.rest().len(), |i: int| self.rest()[self.rest().len() - 1 - i]),
    { unimplemented!() }

    /// Iterator::any: true iff the closure returns true for some remaining element
    #[verifier::external_body]
    pub fn any<F: FnMut(T) -> bool>(self, f: F) -> (r: bool)
        requires forall|x: T| f.requires((x,)),
        ensures
            r ==> exists|i: int| 0 <= i < self.rest().len() && #[trigger] f.ensures((self.rest()[i],), true),
            !r ==> forall|i: int| 0 <= i < self.rest().len() ==> f.ensures((#[trigger] self.rest()[i],), false),
    { unimplemented!() }

    /// Iterator::all: true iff the closure returns true for every remaining element
    #[verifier::external_body]
    pub fn all<F: FnMut(T) -> bool>(self, f: F) -> (r: bool)
        requires forall|x: T| f.requires((x,)),
        ensures
            r ==> forall|i: int| 0 <= i < self.rest().len() ==> f.ensures((#[trigger] self.rest()[i],), true),
            !r ==> exists|i: int| 0 <= i < self.rest().len() && #[trigger] f.ensures((self.rest()[i],), false),
    { unimplemented!() }

    /// ghost: the source sequence and the per-element predicate outcomes of the `filter` that built this iterator
    pub uninterp spec fn filter_src(&self) -> Seq<T>;
    pub uninterp spec fn filter_sel(&self) -> Seq<bool>;

    /// Iterator::filter: the predicate is called once per element (outcomes `filter_sel`); the elements whose
    /// outcome was true are kept, in order
    #[verifier::external_body]
    pub fn filter<F: FnMut(&T) -> bool>(self, f: F) -> (r: VxIter<T>)
        requires forall|i: int| 0 <= i < self.rest().len() ==> f.requires((&#[trigger] self.rest()[i],)),
        ensures
            r.filter_src() == self.rest(),
            r.filter_sel().len() == self.rest().len(),
            forall|i: int| 0 <= i < self.rest().len() ==> f.ensures((&self.rest()[i],), #[trigger] r.filter_sel()[i]),
            r.rest() == seq_select(self.rest(), r.filter_sel()),
    { unimplemented!() }

    /// Iterator::take_while: the longest prefix whose elements all satisfy the predicate; the first element that
    /// does not (if any) and everything after it is dropped
    #[verifier::external_body]
    pub fn take_while<F: FnMut(&T) -> bool>(self, f: F) -> (r: VxIter<T>)
        requires forall|i: int| 0 <= i < self.rest().len() ==> f.requires((&#[trigger] self.rest()[i],)),
        ensures
            r.rest().len() <= self.rest().len(),
            r.rest() == self.rest().subrange(0, r.rest().len() as int),
            forall|i: int| 0 <= i < r.rest().len() ==> f.ensures((&#[trigger] self.rest()[i],), true),
            r.rest().len() < self.rest().len() ==> f.ensures((&self.rest()[r.rest().len() as int],), false),
    { unimplemented!() }
}

impl<'a, T: Copy> VxIter<&'a T> {
    /// Iterator::copied
    #[verifier::external_body]
    pub fn copied(self) -> (r: VxIter<T>)
        ensures r.rest() == Seq::new(self.rest().len(), |i: int| *self.rest()[i]),
    { unimplemented!() }
}

/// pi is a permutation of 0..n
pub open spec fn is_perm(pi: Seq<int>, n: int) -> bool {
    &&& pi.len() == n
    &&& forall|i: int| 0 <= i < n ==> 0 <= #[trigger] pi[i] < n
    &&& forall|i: int, j: int| 0 <= i < j < n ==> #[trigger] pi[i] != #[trigger] pi[j]
    &&& forall|v: int| 0 <= v < n ==> #[trigger] has_pos(pi, v)
}

pub open spec fn has_pos(pi: Seq<int>, v: int) -> bool {
    exists|i: int| 0 <= i < pi.len() && #[trigger] pi[i] == v
}

/// elements of s whose selector is true, in order
pub open spec fn seq_select<T>(s: Seq<T>, sel: Seq<bool>) -> Seq<T>
    decreases s.len(),
{
    if s.len() == 0 || sel.len() != s.len() {
        Seq::empty()
    } else if sel[0] {
        seq![s[0]] + seq_select(s.skip(1), sel.skip(1))
    } else {
        seq_select(s.skip(1), sel.skip(1))
    }
}

pub proof fn lemma_select_all<T>(s: Seq<T>, sel: Seq<bool>)
    requires sel.len() == s.len(), forall|i: int| 0 <= i < s.len() ==> #[trigger] sel[i],
    ensures seq_select(s, sel) =~= s,
    decreases s.len(),
{
    if s.len() > 0 {
        assert forall|i: int| 0 <= i < s.skip(1).len() implies #[trigger] sel.skip(1)[i] by {
            assert(sel.skip(1)[i] == sel[i + 1]);
        }
        lemma_select_all(s.skip(1), sel.skip(1));
        assert(s =~= seq![s[0]] + s.skip(1));
    }
}

pub trait VxVecExt<T> {
    spec fn vx_view(&self) -> Seq<T>;

    /// `<[T]>::sort_by` (std: stable; "the order of equal elements is preserved"): the result is a permutation of
    /// the input; comparing an element with a later one yields Less, or Equal with input order preserved.
    /// (Phrased over outcomes `o` of calling the comparator, because Verus closures expose `ensures` one way.)
    fn vx_sort_by<F: FnMut(&T, &T) -> core::cmp::Ordering>(&mut self, compare: F)
        requires
            forall|i: int, j: int| 0 <= i < old(self).vx_view().len() && 0 <= j < old(self).vx_view().len()
                ==> #[trigger] compare.requires((&old(self).vx_view()[i], &old(self).vx_view()[j])),
        ensures
            exists|pi: Seq<int>| #![trigger is_perm(pi, old(self).vx_view().len() as int)] {
                &&& is_perm(pi, old(self).vx_view().len() as int)
                &&& final(self).vx_view().len() == old(self).vx_view().len()
                &&& forall|i: int| 0 <= i < pi.len() ==> #[trigger] final(self).vx_view()[i] == old(self).vx_view()[pi[i]]
                &&& forall|i: int, j: int| #![trigger final(self).vx_view()[i], final(self).vx_view()[j]] 0 <= i < j < pi.len()
                        ==> exists|o: core::cmp::Ordering| #[trigger] compare.ensures((&final(self).vx_view()[i], &final(self).vx_view()[j]), o)
                                && (o == core::cmp::Ordering::Less || (o == core::cmp::Ordering::Equal && pi[i] < pi[j]))
            };

    /// `<[T]>::sort_unstable_by`: a permutation of the input, no element Greater than a later one; equal elements may
    /// be reordered (NOT stable)
    fn vx_sort_unstable_by<F: FnMut(&T, &T) -> core::cmp::Ordering>(&mut self, compare: F)
        requires
            forall|i: int, j: int| 0 <= i < old(self).vx_view().len() && 0 <= j < old(self).vx_view().len()
                ==> #[trigger] compare.requires((&old(self).vx_view()[i], &old(self).vx_view()[j])),
        ensures
            exists|pi: Seq<int>| #![trigger is_perm(pi, old(self).vx_view().len() as int)] {
                &&& is_perm(pi, old(self).vx_view().len() as int)
                &&& final(self).vx_view().len() == old(self).vx_view().len()
                &&& forall|i: int| 0 <= i < pi.len() ==> #[trigger] final(self).vx_view()[i] == old(self).vx_view()[pi[i]]
                &&& forall|i: int, j: int| #![trigger final(self).vx_view()[i], final(self).vx_view()[j]] 0 <= i < j < pi.len()
                        ==> exists|o: core::cmp::Ordering| #[trigger] compare.ensures((&final(self).vx_view()[i], &final(self).vx_view()[j]), o)
                                && o != core::cmp::Ordering::Greater
            };

    /// `<[T]>::sort_by_key` (stable) / `sort_unstable_by_key` (not stable): sorted by the key the closure returns
    fn vx_sort_by_key<K: Ord, F: FnMut(&T) -> K>(&mut self, key: F)
        requires forall|i: int| 0 <= i < old(self).vx_view().len() ==> #[trigger] key.requires((&old(self).vx_view()[i],)),
        ensures
            exists|pi: Seq<int>| #![trigger is_perm(pi, old(self).vx_view().len() as int)] {
                &&& is_perm(pi, old(self).vx_view().len() as int)
                &&& final(self).vx_view().len() == old(self).vx_view().len()
                &&& forall|i: int| 0 <= i < pi.len() ==> #[trigger] final(self).vx_view()[i] == old(self).vx_view()[pi[i]]
                &&& forall|i: int, j: int| #![trigger final(self).vx_view()[i], final(self).vx_view()[j]] 0 <= i < j < pi.len()
                        ==> exists|ki: K, kj: K| #[trigger] key.ensures((&final(self).vx_view()[i],), ki) && #[trigger] key.ensures((&final(self).vx_view()[j],), kj)
                                && (ki.cmp_spec(&kj) == core::cmp::Ordering::Less || (ki.cmp_spec(&kj) == core::cmp::Ordering::Equal && pi[i] < pi[j]))
            };

    fn vx_sort_unstable_by_key<K: Ord, F: FnMut(&T) -> K>(&mut self, key: F)
        requires forall|i: int| 0 <= i < old(self).vx_view().len() ==> #[trigger] key.requires((&old(self).vx_view()[i],)),
        ensures
            exists|pi: Seq<int>| #![trigger is_perm(pi, old(self).vx_view().len() as int)] {
                &&& is_perm(pi, old(self).vx_view().len() as int)
                &&& final(self).vx_view().len() == old(self).vx_view().len()
                &&& forall|i: int| 0 <= i < pi.len() ==> #[trigger] final(self).vx_view()[i] == old(self).vx_view()[pi[i]]
                &&& forall|i: int, j: int| #![trigger final(self).vx_view()[i], final(self).vx_view()[j]] 0 <= i < j < pi.len()
                        ==> exists|ki: K, kj: K| #[trigger] key.ensures((&final(self).vx_view()[i],), ki) && #[trigger] key.ensures((&final(self).vx_view()[j],), kj)
                                && ki.cmp_spec(&kj) != core::cmp::Ordering::Greater
            };

    /// `<[T]>::fill`
    fn vx_fill(&mut self, value: T)
        ensures final(self).vx_view() == Seq::new(old(self).vx_view().len(), |i: int| value);

    /// `<[T]>::iter`
    fn vx_iter(&self) -> (r: VxIter<&T>)
        ensures r.rest().len() == self.vx_view().len(), forall|i: int| 0 <= i < self.vx_view().len() ==> *#[trigger] r.rest()[i] == self.vx_view()[i];
}

impl<T> VxVecExt<T> for Vec<T> {
    open spec fn vx_view(&self) -> Seq<T> { self@ }
    #[verifier::external_body]
    fn vx_iter(&self) -> (r: VxIter<&T>) { unimplemented!() }
    #[verifier::external_body]
    fn vx_sort_by<F: FnMut(&T, &T) -> core::cmp::Ordering>(&mut self, compare: F) { unimplemented!() }
    #[verifier::external_body]
    fn vx_sort_unstable_by<F: FnMut(&T, &T) -> core::cmp::Ordering>(&mut self, compare: F) { unimplemented!() }
    #[verifier::external_body]
    fn vx_sort_by_key<K: Ord, F: FnMut(&T) -> K>(&mut self, key: F) { unimplemented!() }
    #[verifier::external_body]
    fn vx_sort_unstable_by_key<K: Ord, F: FnMut(&T) -> K>(&mut self, key: F) { unimplemented!() }
    #[verifier::external_body]
    fn vx_fill(&mut self, value: T) { unimplemented!() }
}

/// R4': `v[a..].iter()` — iterator over the tail of a Vec starting at index a (panics if a > len)
#[verifier::external_body]
pub fn vx_iter_from<T>(v: &Vec<T>, a: usize) -> (r: VxIter<&T>)
    requires a <= v@.len(),
    ensures r.rest().len() == v@.len() - a, forall|i: int| 0 <= i < v@.len() - a ==> *#[trigger] r.rest()[i] == v@[a + i],
{ unimplemented!() }

pub open spec fn vx_iter_from_spec<T>(v: Seq<T>, a: int) -> Seq<T> {
    v.subrange(a, v.len() as int)
}

/// R4': `v[a..].fill(x)` — overwrite the tail of a Vec starting at index a (panics if a > len)
#[verifier::external_body]
pub fn vx_fill_from<T: Copy>(v: &mut Vec<T>, a: usize, value: T)
    requires a <= old(v)@.len(),
    ensures final(v)@ == Seq::new(old(v)@.len(), |i: int| if i >= a { value } else { old(v)@[i] }),
{ unimplemented!() }
