// ===== prelude/skeleton.rs — pieces used by the prologues of the *_internal functions =====
use std::future::Future;
use std::fmt::Debug;

/// the queuer future (`impl Future<Output = ()>` returned by fn_ready_queuer)
#[verifier::external_body]
pub struct QueuerFut { _p: usize }

impl<T> RwLock<T> {
    /// tokio `RwLock::new`
    #[verifier::external_body]
    pub fn new(v: T) -> (r: RwLock<T>)
    { unimplemented!() }
}

