// ===== prelude/skeleton.rs — pieces used by the prologues of the *_internal functions =====
use std::future::Future;
use std::fmt::Debug;

/// the queuer future (`impl Future<Output = ()>` returned by fn_ready_queuer)
#[verifier::external_body]
pub struct QueuerFut { _p: usize }

impl<T> RwLock<T> {
    /// tokio `RwLock::new`
    #[verifier::external_body]
    pub fn new(v: T) -> (r: RwLock<T>)
    { unimplemented!() }
}

impl<N> Dag<N, Edge, FnIdInner> {
    /// `Dag::node_weights_mut()`: one `&mut` per node weight, in index order
    #[verifier::external_body]
    pub fn node_weights_mut(&mut self) -> (r: VxIter<&mut N>)
        ensures r.rest().len() == old(self).n(), final(self).n() == old(self).n(), final(self).edges() == old(self).edges(),
    { unimplemented!() }
}
