// ===== prelude/wrappers.rs =====
use std::ops::ControlFlow;

/// futures::future::ready(v): a future that is immediately ready with v
#[verifier::external_body]
#[verifier::reject_recursive_types(T)]
pub struct ReadyFut<T> { _p: PhantomData<T> }

impl<T> ReadyFut<T> {
    pub uninterp spec fn val(&self) -> T;
}

pub mod futures {
    pub mod future {
        use super::super::*;
        #[verifier::external_body]
        pub fn ready<T>(v: T) -> (r: ReadyFut<T>)
            ensures r.val() == v,
        { unimplemented!() }
    }
}
