// ===== prelude/built.rs — the built-graph invariant established by build() (unit U4) =====
/// the part of the built-graph invariant that does not speak about data access (no bound on `F`)
pub open spec fn built_shape<F>(fg: &FnGraph<F>) -> bool {
    let n = fg.graph.n();
    &&& fg.graph.wf() && fg.graph_structure.wf() && fg.graph_structure_rev.wf()
    &&& fg.graph_structure.n() == n && fg.graph_structure_rev.n() == n
    &&& fg.graph_structure.edges() == fg.graph.edges()
    &&& reversed_edges(fg.graph.edges(), fg.graph_structure_rev.edges())
    &&& counts_ok(fg.graph.edges(), n as int, fg.edge_counts.incoming@, fg.edge_counts.outgoing@)
    &&& fg.ranks@.len() == n
}

/// the built-graph invariant: what `FnGraphBuilder::build` establishes and every run-time unit relies on
pub open spec fn built<F: DataAccessDyn>(fg: &FnGraph<F>) -> bool {
    let n = fg.graph.n();
    &&& built_shape(fg)
    &&& forall|a: int, b: int| 0 <= a < n && 0 <= b < n && a != b && #[trigger] conflict(&fg.graph.weights()[a], &fg.graph.weights()[b])
            ==> reach(fg.graph.edges(), a, b) || reach(fg.graph.edges(), b, a)
}
