// ===== prelude/protocol.rs — invariants of the queuer side of one run (DESIGN §5: I1, I2, I3); lemmas PROVED =====

pub open spec fn in_done(w: World, x: int) -> bool {
    w.done_recv.contains(x)
}

/// edge e is a still-pending reason for c to wait: it enters c and its source has not been processed as done
pub open spec fn pend(w: World, c: int) -> spec_fn(int) -> bool {
    |e: int| w.es[e].dst == c && !w.done_recv.contains(w.es[e].src)
}

pub open spec fn world_wf(w: World) -> bool {
    &&& w.n >= 0
    &&& forall|e: int| 0 <= e < w.es.len() ==> 0 <= (#[trigger] w.es[e]).src < w.n && 0 <= w.es[e].dst < w.n && w.es[e].src != w.es[e].dst
    &&& w.ready.cap >= w.n && w.ready.cap >= 1
    &&& w.done.cap >= w.n && w.done.cap >= 1
    &&& 0 <= w.ready.recvd <= w.ready.sent.len()
    &&& 0 <= w.done.recvd <= w.done.sent.len()
    &&& forall|x: int| w.done_recv.contains(x) ==> 0 <= x < w.n
}

/// I1: every count is the number of pending incoming edges
pub open spec fn counts_inv(w: World, counts: Seq<usize>) -> bool {
    &&& counts.len() == w.n
    &&& forall|c: int| 0 <= c < w.n ==> #[trigger] counts[c] == cnt(w.es.len() as int, pend(w, c))
}

/// I2 + I3: what has been sent to the ready channel is duplicate-free and consists of functions with no
/// pending predecessor; while the ready sender and receiver live, EVERY such function has been sent (eager release)
pub open spec fn ready_inv(w: World, counts: Seq<usize>, tx_some: bool) -> bool {
    &&& no_dup(w.ready.sent)
    &&& forall|j: int| 0 <= j < w.ready.sent.len() ==> 0 <= #[trigger] w.ready.sent[j] < w.n && counts[w.ready.sent[j]] == 0
    &&& (tx_some && w.ready.rx_alive) ==> forall|c: int| 0 <= c < w.n && #[trigger] counts[c] == 0 ==> seq_has_int(w.ready.sent, c)
}

/// C02 in one step: a function that was sent to the ready channel has no predecessor left that is not done
pub proof fn lemma_ready_means_preds_done(w: World, counts: Seq<usize>, tx_some: bool, c: int, e: int)
    requires
        world_wf(w), counts_inv(w, counts), ready_inv(w, counts, tx_some),
        seq_has_int(w.ready.sent, c), 0 <= e < w.es.len(), w.es[e].dst == c,
    ensures in_done(w, w.es[e].src),
{
    let j = choose|j: int| 0 <= j < w.ready.sent.len() && #[trigger] w.ready.sent[j] == c;
    assert(counts[c] == 0);
    lemma_cnt_zero(w.es.len() as int, pend(w, c));
    if !in_done(w, w.es[e].src) {
        assert(pend(w, c)(e));
    }
}

/// pending edges into c while the out-edges of p are being retired: the first jj out-edges of p no longer count
pub open spec fn pend_step(w: World, c: int, p: int, oe: Seq<int>, jj: int) -> spec_fn(int) -> bool {
    |e: int| w.es[e].dst == c && !w.done_recv.contains(w.es[e].src) && !(w.es[e].src == p && in_prefix(oe, jj, e))
}

/// the done set is a set of ids below n that misses p: it has fewer than n elements
pub proof fn lemma_done_not_full(w: World, p: int)
    requires world_wf(w), 0 <= p < w.n, !w.done_recv.contains(p),
    ensures w.done_recv.len() < w.n,
{
    vstd::set_lib::lemma_int_range(0, w.n);
    let full = vstd::set_lib::set_int_range(0, w.n);
    let s2 = w.done_recv.insert(p);
    assert(s2.subset_of(full));
    vstd::set_lib::lemma_len_subset(s2, full);
}

