// ===== prelude/locks.rs — tokio::sync::RwLock as used by the concurrent item closures, ASSUMED model =====
// The cells are shared by all in-flight item closures: the value seen after an acquisition is whatever the
// lock's invariant allows. Invariants used:
//  * RwLock<usize> (fns_remaining) >= number of handed-out items that have not decremented yet ("tickets");
//    acquiring it for writing while holding a ticket therefore sees a value >= 1 (this consumes the ticket).
//  * RwLock<Option<Sender>> (fn_done_tx): Some(s) => s is a done sender; once taken it stays None.


#[verifier::external_body]
#[verifier::reject_recursive_types(T)]
pub struct RwLock<T> { _p: PhantomData<T> }

#[verifier::external_body]
#[verifier::reject_recursive_types(T)]
pub struct ReadGuard<'a, T> { _p: PhantomData<&'a T> }

#[verifier::external_body]
#[verifier::reject_recursive_types(T)]
pub struct WriteGuard<'a, T> { _p: PhantomData<&'a T> }

#[verifier::external_body]
#[verifier::reject_recursive_types(T)]
pub struct ReadFut<'a, T> { _p: PhantomData<&'a T> }

#[verifier::external_body]
#[verifier::reject_recursive_types(T)]
pub struct WriteFut<'a, T> { _p: PhantomData<&'a T> }

impl<'a, T> ReadGuard<'a, T> {
    pub uninterp spec fn val(&self) -> T;
}
impl<'a, T> WriteGuard<'a, T> {
    pub uninterp spec fn val(&self) -> T;
}

impl<'a, T> core::ops::Deref for ReadGuard<'a, T> {
    type Target = T;
    #[verifier::external_body]
    fn deref(&self) -> (r: &T)
        ensures *r == self.val(),
    { unimplemented!() }
}

impl<'a, T> core::ops::Deref for WriteGuard<'a, T> {
    type Target = T;
    #[verifier::external_body]
    fn deref(&self) -> (r: &T)
        ensures *r == self.val(),
    { unimplemented!() }
}

impl<'a, T> core::ops::DerefMut for WriteGuard<'a, T> {
    #[verifier::external_body]
    fn deref_mut(&mut self) -> (r: &mut T)
        ensures *r == old(self).val(), final(self).val() == *final(r),
    { unimplemented!() }
}

impl<T> RwLock<T> {
    #[verifier::external_body]
    pub fn read(&self, Tracked(w): Tracked<&mut World>) -> (r: ReadFut<'_, T>)
        ensures *final(w) == *old(w),
    { unimplemented!() }

    #[verifier::external_body]
    pub fn write(&self, Tracked(w): Tracked<&mut World>) -> (r: WriteFut<'_, T>)
        ensures *final(w) == *old(w),
    { unimplemented!() }
}

/// facts that survive every suspension point
pub open spec fn stable(w0: World, w1: World) -> bool {
    &&& trace(w1) == trace(w0)
    &&& ticket(w1) == ticket(w0)
    &&& (done_tx_gone(w0) ==> done_tx_gone(w1))
    &&& w1.n == w0.n && w1.es == w0.es
}

impl<'a> VxFuture for ReadFut<'a, Option<Sender<NodeIndex<FnIdInner>>>> {
    type Out = ReadGuard<'a, Option<Sender<NodeIndex<FnIdInner>>>>;
    open spec fn completes(&self, w0: World, w1: World, out: ReadGuard<'a, Option<Sender<NodeIndex<FnIdInner>>>>) -> bool {
        &&& stable(w0, w1)
        &&& (out.val() is Some ==> out.val()->Some_0.chan() == DONE)
        &&& (done_tx_gone(w0) ==> out.val() is None)
    }
}

impl<'a> VxFuture for WriteFut<'a, Option<Sender<NodeIndex<FnIdInner>>>> {
    type Out = WriteGuard<'a, Option<Sender<NodeIndex<FnIdInner>>>>;
    open spec fn completes(&self, w0: World, w1: World, out: WriteGuard<'a, Option<Sender<NodeIndex<FnIdInner>>>>) -> bool {
        &&& stable(w0, w1)
        &&& (out.val() is Some ==> out.val()->Some_0.chan() == DONE)
        &&& (done_tx_gone(w0) ==> out.val() is None)
    }
}

impl<'a> VxFuture for ReadFut<'a, usize> {
    type Out = ReadGuard<'a, usize>;
    open spec fn completes(&self, w0: World, w1: World, out: ReadGuard<'a, usize>) -> bool {
        stable(w0, w1)
    }
}

impl<'a> VxFuture for WriteFut<'a, usize> {
    type Out = WriteGuard<'a, usize>;
    open spec fn completes(&self, w0: World, w1: World, out: WriteGuard<'a, usize>) -> bool {
        &&& trace(w1) == trace(w0) && w1.n == w0.n && w1.es == w0.es && (done_tx_gone(w0) ==> done_tx_gone(w1))
        //  holding a ticket, the counter is at least 1; taking the write lock to decrement uses the ticket up
        &&& (ticket(w0) ==> out.val() >= 1 && !ticket(w1))
        &&& (!ticket(w0) ==> !ticket(w1))
    }
}

#[verifier::external_body]
pub struct TryLockError { _p: usize }

#[verifier::external]
impl core::fmt::Debug for TryLockError {
    fn fmt(&self, f: &mut core::fmt::Formatter<'_>) -> core::fmt::Result { f.write_str("TryLockError") }
}

impl<'m, F> RwLock<&'m mut F> {
    /// `RwLock::try_write` on a PER-FUNCTION lock of the *_mut variants: fails iff the lock is held. ASSUMED (C03): these
    /// locks are only taken by the item closure of their function, and an item that holds a ticket is the only one for
    /// its function, so its lock is free.
    #[verifier::external_body]
    pub fn try_write(&self, Tracked(w): Tracked<&mut World>) -> (r: Result<WriteGuard<'_, &'m mut F>, TryLockError>)
        ensures *final(w) == *old(w), ticket(*old(w)) ==> r is Ok,
    { unimplemented!() }
}

impl RwLock<Option<Sender<NodeIndex<FnIdInner>>>> {
    /// `RwLock::try_write` on the SHARED done-sender cell: other item closures may hold it (a done send keeps the read
    /// guard across its await), so nothing is promised about success
    #[verifier::external_body]
    pub fn try_write(&self, Tracked(w): Tracked<&mut World>) -> (r: Result<WriteGuard<'_, Option<Sender<NodeIndex<FnIdInner>>>>, TryLockError>)
        ensures *final(w) == *old(w), r is Ok ==> ((r->Ok_0.val() is Some ==> r->Ok_0.val()->Some_0.chan() == DONE) && (done_tx_gone(*old(w)) ==> r->Ok_0.val() is None)),
    { unimplemented!() }
}

impl RwLock<usize> {
    /// `RwLock::try_write` on the shared counter: nothing is promised about success
    #[verifier::external_body]
    pub fn try_write(&self, Tracked(w): Tracked<&mut World>) -> (r: Result<WriteGuard<'_, usize>, TryLockError>)
        ensures *final(w) == *old(w),
    { unimplemented!() }
}
