// ===== prelude/graphspec.rs — spec library taken from the property statements; lemmas are PROVED by Verus =====

pub open spec fn has_edge(es: Seq<EdgeV>, a: int, b: int) -> bool {
    exists|e: int| 0 <= e < es.len() && #[trigger] es[e].src == a && es[e].dst == b
}

/// a path: non-empty sequence of nodes, each joined to the next by an edge (a single node is a path)
pub open spec fn is_path(es: Seq<EdgeV>, p: Seq<int>) -> bool {
    &&& p.len() >= 1
    &&& forall|i: int| 0 <= i < p.len() - 1 ==> #[trigger] has_edge(es, p[i], p[i + 1])
}

/// b is reachable from a along edges (every node reaches itself)
pub open spec fn reach(es: Seq<EdgeV>, a: int, b: int) -> bool {
    exists|p: Seq<int>| #[trigger] is_path(es, p) && p[0] == a && p.last() == b
}

/// a dependency chain: non-empty sequence of functions, each joined to the next by an edge
pub open spec fn is_chain<N>(g: &Dag<N, Edge, FnIdInner>, c: Seq<int>) -> bool {
    &&& c.len() >= 1
    &&& forall|i: int| 0 <= i < c.len() ==> 0 <= #[trigger] c[i] < g.n()
    &&& forall|i: int| 0 <= i < c.len() - 1 ==> #[trigger] has_edge(g.edges(), c[i], c[i + 1])
}

pub open spec fn is_root<N>(g: &Dag<N, Edge, FnIdInner>, v: int) -> bool {
    in_edges(g.edges(), v).len() == 0
}

pub open spec fn in_queue(q: Seq<NodeIndex<FnIdInner>>, v: int) -> bool {
    exists|j: int| 0 <= j < q.len() && (#[trigger] q[j]).0.0 == v
}

/// elements of out_edges are exactly the edge indices whose source is `a`
pub proof fn lemma_out_edges(es: Seq<EdgeV>, a: int)
    ensures
        forall|j: int| 0 <= j < out_edges(es, a).len() ==> 0 <= #[trigger] out_edges(es, a)[j] < es.len() && es[out_edges(es, a)[j]].src == a,
        forall|e: int| 0 <= e < es.len() && (#[trigger] es[e]).src == a ==> exists|j: int| 0 <= j < out_edges(es, a).len() && out_edges(es, a)[j] == e,
    decreases es.len(),
{
    if es.len() > 0 {
        let k = es.len() - 1;
        let pre = es.drop_last();
        lemma_out_edges(pre, a);
        let r = out_edges(pre, a);
        let o = out_edges(es, a);
        if es[k].src == a {
            assert(o =~= seq![k as int] + r);
            assert forall|j: int| 0 <= j < o.len() implies 0 <= #[trigger] o[j] < es.len() && es[o[j]].src == a by {
                if j > 0 {
                    assert(o[j] == r[j - 1]);
                    assert(pre[r[j - 1]] == es[r[j - 1]]);
                }
            }
            assert forall|e: int| 0 <= e < es.len() && (#[trigger] es[e]).src == a implies exists|j: int| 0 <= j < o.len() && o[j] == e by {
                if e == k {
                    assert(o[0] == e);
                } else {
                    assert(pre[e] == es[e]);
                    let j0 = choose|j: int| 0 <= j < r.len() && r[j] == e;
                    assert(o[j0 + 1] == e);
                }
            }
        } else {
            assert(o =~= r);
            assert forall|j: int| 0 <= j < o.len() implies 0 <= #[trigger] o[j] < es.len() && es[o[j]].src == a by {
                assert(pre[r[j]] == es[r[j]]);
            }
            assert forall|e: int| 0 <= e < es.len() && (#[trigger] es[e]).src == a implies exists|j: int| 0 <= j < o.len() && o[j] == e by {
                assert(pre[e] == es[e]);
            }
        }
    }
}

pub proof fn lemma_in_edges(es: Seq<EdgeV>, a: int)
    ensures
        forall|j: int| 0 <= j < in_edges(es, a).len() ==> 0 <= #[trigger] in_edges(es, a)[j] < es.len() && es[in_edges(es, a)[j]].dst == a,
        forall|e: int| 0 <= e < es.len() && (#[trigger] es[e]).dst == a ==> exists|j: int| 0 <= j < in_edges(es, a).len() && in_edges(es, a)[j] == e,
    decreases es.len(),
{
    if es.len() > 0 {
        let k = es.len() - 1;
        let pre = es.drop_last();
        lemma_in_edges(pre, a);
        let r = in_edges(pre, a);
        let o = in_edges(es, a);
        if es[k].dst == a {
            assert(o =~= seq![k as int] + r);
            assert forall|j: int| 0 <= j < o.len() implies 0 <= #[trigger] o[j] < es.len() && es[o[j]].dst == a by {
                if j > 0 {
                    assert(o[j] == r[j - 1]);
                    assert(pre[r[j - 1]] == es[r[j - 1]]);
                }
            }
            assert forall|e: int| 0 <= e < es.len() && (#[trigger] es[e]).dst == a implies exists|j: int| 0 <= j < o.len() && o[j] == e by {
                if e == k {
                    assert(o[0] == e);
                } else {
                    assert(pre[e] == es[e]);
                    let j0 = choose|j: int| 0 <= j < r.len() && r[j] == e;
                    assert(o[j0 + 1] == e);
                }
            }
        } else {
            assert(o =~= r);
            assert forall|j: int| 0 <= j < o.len() implies 0 <= #[trigger] o[j] < es.len() && es[o[j]].dst == a by {
                assert(pre[r[j]] == es[r[j]]);
            }
            assert forall|e: int| 0 <= e < es.len() && (#[trigger] es[e]).dst == a implies exists|j: int| 0 <= j < o.len() && o[j] == e by {
                assert(pre[e] == es[e]);
            }
        }
    }
}

/// along a chain the topological number grows by at least one per step, so a chain has at most n functions
pub proof fn lemma_chain_topo<N>(g: &Dag<N, Edge, FnIdInner>, c: Seq<int>)
    requires g.wf(), is_chain(g, c),
    ensures g.topo(c.last()) >= g.topo(c[0]) + c.len() - 1, c.len() <= g.n(),
    decreases c.len(),
{
    if c.len() > 1 {
        let d = c.drop_last();
        assert(is_chain(g, d)) by {
            assert forall|i: int| 0 <= i < d.len() - 1 implies #[trigger] has_edge(g.edges(), d[i], d[i + 1]) by {
                assert(d[i] == c[i] && d[i + 1] == c[i + 1]);
            }
        }
        lemma_chain_topo(g, d);
        let i = c.len() - 2;
        assert(has_edge(g.edges(), c[i], c[i + 1]));
        let e = choose|e: int| 0 <= e < g.edges().len() && #[trigger] g.edges()[e].src == c[i] && g.edges()[e].dst == c[i + 1];
        assert(g.topo(g.edges()[e].src) < g.topo(g.edges()[e].dst));
        assert(d.last() == c[i]);
        assert(d[0] == c[0]);
    }
    assert(0 <= g.topo(c[0]));
    assert(g.topo(c.last()) < g.n());
}
