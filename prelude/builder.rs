// ===== prelude/builder.rs — the oracle of C16, taken from the property statement =====

/// at most one edge per ordered pair of functions
pub open spec fn unique_pairs(es: Seq<EdgeV>) -> bool {
    forall|i: int, j: int| 0 <= i < j < es.len() ==> !((#[trigger] es[i]).src == (#[trigger] es[j]).src && es[i].dst == es[j].dst)
}

/// what adding the edge a -> b of kind k must do to the accepted edges `before`
pub open spec fn edge_update_spec(before: Seq<EdgeV>, after: Seq<EdgeV>, a: int, b: int, k: Edge, ok: bool) -> bool {
    if has_edge(before, a, b) {
        // the pair already has an edge: accepted, no new edge, the most recently given kind wins, nothing else changes
        &&& ok
        &&& after.len() == before.len()
        &&& forall|e: int| 0 <= e < before.len() ==> (#[trigger] after[e]).src == before[e].src && after[e].dst == before[e].dst
        &&& forall|e: int| 0 <= e < before.len() && !(before[e].src == a && before[e].dst == b) ==> #[trigger] after[e] == before[e]
        &&& exists|e: int| 0 <= e < before.len() && before[e].src == a && before[e].dst == b && (#[trigger] after[e]).kind == k
    } else if a == b || reach(before, b, a) {
        // it would close a cycle (self edges included): WouldCycle, accepted edges intact
        !ok && after == before
    } else {
        // every other edge is accepted and appended with its kind
        ok && after == before.push(EdgeV { src: a, dst: b, kind: k })
    }
}

pub open spec fn pair_from(p: (NodeIndex<FnIdInner>, NodeIndex<FnIdInner>)) -> int { p.0.0.0 as int }
pub open spec fn pair_to(p: (NodeIndex<FnIdInner>, NodeIndex<FnIdInner>)) -> int { p.1.0.0 as int }

/// hist[0..=k] are the accepted-edge lists after accepting the first 0..k pairs, one add_*_edge step each
pub open spec fn batch_steps(hist: Seq<Seq<EdgeV>>, pairs: Seq<(NodeIndex<FnIdInner>, NodeIndex<FnIdInner>)>, kind: Edge, k: int) -> bool {
    &&& hist.len() == k + 1
    &&& 0 <= k <= pairs.len()
    &&& forall|i: int| 0 <= i < k ==> edge_update_spec(#[trigger] hist[i], hist[i + 1], pair_from(pairs[i]), pair_to(pairs[i]), kind, true)
}

/// the batch forms: pairs are processed in order; the first rejected pair stops the batch, the edges accepted
/// before it stay, nothing after it is looked at
pub open spec fn batch_spec(before: Seq<EdgeV>, after: Seq<EdgeV>, pairs: Seq<(NodeIndex<FnIdInner>, NodeIndex<FnIdInner>)>, kind: Edge, ok: bool) -> bool {
    exists|hist: Seq<Seq<EdgeV>>, k: int| {
        &&& #[trigger] batch_steps(hist, pairs, kind, k)
        &&& hist[0] == before && hist[k] == after
        &&& (ok <==> k == pairs.len())
        &&& (k < pairs.len() ==> edge_update_spec(after, after, pair_from(pairs[k]), pair_to(pairs[k]), kind, false))
    }
}

// std: Default for the index newtypes
impl Default for NodeIndex<FnIdInner> {
    #[verifier::external_body]
    fn default() -> Self { unimplemented!() }
}
impl Default for EdgeIndex<FnIdInner> {
    #[verifier::external_body]
    fn default() -> Self { unimplemented!() }
}
