// ===== prelude/setup.rs — what stream_setup_init uses: mpsc::channel, petgraph Topo, slice::to_vec; ASSUMED =====

#[verifier::external]
impl<T> core::fmt::Debug for TrySendError<T> {
    fn fmt(&self, f: &mut core::fmt::Formatter<'_>) -> core::fmt::Result { f.write_str("TrySendError") }
}

pub open spec fn fresh_chan(cap: int) -> Chan {
    Chan { sent: Seq::empty(), recvd: 0, cap: cap, rx_alive: true, senders: 1, waker: false, closed_seen: false }
}

/// ghost: how many channels this run has created so far (the first is the ready channel, the second the done channel)
pub open spec fn chans_created(w: World) -> int { w.chans_created }

pub mod mpsc {
    use super::*;
    /// tokio::sync::mpsc::channel(buffer): a fresh bounded channel; PANICS if buffer == 0
    #[verifier::external_body]
    pub fn channel<T>(buffer: usize, Tracked(w): Tracked<&mut World>) -> (r: (Sender<T>, Receiver<T>))
        requires buffer > 0,
        ensures
            r.0.chan() == chans_created(*old(w)) && r.1.chan() == chans_created(*old(w)),
            chans_created(*old(w)) == READY ==> *final(w) == (World { ready: fresh_chan(buffer as int), chans_created: old(w).chans_created + 1, ..*old(w) }),
            chans_created(*old(w)) == DONE ==> *final(w) == (World { done: fresh_chan(buffer as int), chans_created: old(w).chans_created + 1, ..*old(w) }),
            chans_created(*old(w)) != READY && chans_created(*old(w)) != DONE ==> *final(w) == (World { chans_created: old(w).chans_created + 1, ..*old(w) }),
    { unimplemented!() }

    /// rule R30: the `channel` call whose pair is bound to `fn_ready_tx / fn_ready_rx`: the fresh channel that the code uses as the
    /// ready channel (a label for a fresh channel; every later use is checked against it)
    #[verifier::external_body]
    pub fn channel_ready<T>(buffer: usize, Tracked(w): Tracked<&mut World>) -> (r: (Sender<T>, Receiver<T>))
        requires buffer > 0,
        ensures
            r.0.chan() == READY && r.1.chan() == READY,
            *final(w) == (World { ready: fresh_chan(buffer as int), chans_created: old(w).chans_created + 1, ..*old(w) }),
    { unimplemented!() }

    /// rule R30: the `channel` call whose pair is bound to `fn_done_tx / fn_done_rx`
    #[verifier::external_body]
    pub fn channel_done<T>(buffer: usize, Tracked(w): Tracked<&mut World>) -> (r: (Sender<T>, Receiver<T>))
        requires buffer > 0,
        ensures
            r.0.chan() == DONE && r.1.chan() == DONE,
            *final(w) == (World { done: fresh_chan(buffer as int), chans_created: old(w).chans_created + 1, ..*old(w) }),
    { unimplemented!() }
}

// ASSUMED (std): `<[T]>::to_vec` is a fresh Vec with the same elements
pub assume_specification<T: Clone> [<[T]>::to_vec] (s: &[T]) -> (r: Vec<T>)
    ensures r@ == s@;

/// lemmas about seq_select (PROVED)
pub proof fn lemma_select_props<T>(s: Seq<T>, sel: Seq<bool>)
    requires sel.len() == s.len(),
    ensures
        seq_select(s, sel).len() <= s.len(),
        //  every selected element is an element of s whose selector is true
        forall|k: int| 0 <= k < seq_select(s, sel).len() ==> exists|i: int| 0 <= i < s.len() && sel[i] && #[trigger] seq_select(s, sel)[k] == s[i],
        //  every element whose selector is true is selected
        forall|i: int| 0 <= i < s.len() && #[trigger] sel[i] ==> exists|k: int| 0 <= k < seq_select(s, sel).len() && seq_select(s, sel)[k] == s[i],
    decreases s.len(),
{
    if s.len() > 0 {
        let s1 = s.skip(1);
        let sel1 = sel.skip(1);
        lemma_select_props(s1, sel1);
        let r1 = seq_select(s1, sel1);
        let r = seq_select(s, sel);
        if sel[0] {
            assert(r =~= seq![s[0]] + r1);
            assert forall|k: int| 0 <= k < r.len() implies exists|i: int| 0 <= i < s.len() && sel[i] && #[trigger] r[k] == s[i] by {
                if k == 0 {
                    assert(r[0] == s[0]);
                } else {
                    assert(r[k] == r1[k - 1]);
                    let i1 = choose|i: int| 0 <= i < s1.len() && sel1[i] && r1[k - 1] == s1[i];
                    assert(s1[i1] == s[i1 + 1] && sel1[i1] == sel[i1 + 1]);
                }
            }
            assert forall|i: int| 0 <= i < s.len() && #[trigger] sel[i] implies exists|k: int| 0 <= k < r.len() && r[k] == s[i] by {
                if i == 0 {
                    assert(r[0] == s[0]);
                } else {
                    assert(sel1[i - 1] == sel[i]);
                    let k1 = choose|k: int| 0 <= k < r1.len() && r1[k] == s1[i - 1];
                    assert(r[k1 + 1] == r1[k1]);
                }
            }
        } else {
            assert(r =~= r1);
            assert forall|k: int| 0 <= k < r.len() implies exists|i: int| 0 <= i < s.len() && sel[i] && #[trigger] r[k] == s[i] by {
                let i1 = choose|i: int| 0 <= i < s1.len() && sel1[i] && r1[k] == s1[i];
                assert(s1[i1] == s[i1 + 1] && sel1[i1] == sel[i1 + 1]);
            }
            assert forall|i: int| 0 <= i < s.len() && #[trigger] sel[i] implies exists|k: int| 0 <= k < r.len() && r[k] == s[i] by {
                assert(sel1[i - 1] == sel[i]);
                let k1 = choose|k: int| 0 <= k < r1.len() && r1[k] == s1[i - 1];
            }
        }
    }
}

/// selecting from a duplicate-free sequence of ints gives a duplicate-free sequence
pub proof fn lemma_select_no_dup(s: Seq<int>, sel: Seq<bool>)
    requires sel.len() == s.len(), no_dup(s),
    ensures no_dup(seq_select(s, sel)),
    decreases s.len(),
{
    if s.len() > 0 {
        let s1 = s.skip(1);
        let sel1 = sel.skip(1);
        assert(no_dup(s1)) by {
            assert forall|i: int, j: int| 0 <= i < j < s1.len() implies #[trigger] s1[i] != #[trigger] s1[j] by {
                assert(s1[i] == s[i + 1] && s1[j] == s[j + 1]);
            }
        }
        lemma_select_no_dup(s1, sel1);
        lemma_select_props(s1, sel1);
        let r1 = seq_select(s1, sel1);
        let r = seq_select(s, sel);
        if sel[0] {
            assert(r =~= seq![s[0]] + r1);
            assert forall|i: int, j: int| 0 <= i < j < r.len() implies #[trigger] r[i] != #[trigger] r[j] by {
                assert(r[j] == r1[j - 1]);
                if i == 0 {
                    let t = choose|t: int| 0 <= t < s1.len() && sel1[t] && r1[j - 1] == s1[t];
                    assert(s1[t] == s[t + 1]);
                    assert(s[0] != s[t + 1]);
                } else {
                    assert(r[i] == r1[i - 1]);
                }
            }
        } else {
            assert(r =~= r1);
        }
    }
}
