// ===== prelude/run.rs — awaits, user callbacks and the per-item event trace (DESIGN §5 EM1/EM2), ASSUMED model =====
// An item closure runs sequentially between awaits; at every await the rest of the world may move. What the
// closure itself does, in order, is recorded in `trace` (a ghost sequence local to the item: exact).

/// a future in the model: `completes(w0, w1, out)` relates the world before/after awaiting it and its output
pub trait VxFuture {
    type Out;
    spec fn completes(&self, w0: World, w1: World, out: Self::Out) -> bool;
}

/// R6: `fut.await`. Between the suspension and the resumption other parts of the run may act (EM2); what is
/// known afterwards is exactly `completes`.
#[verifier::external_body]
pub fn vx_await<Fut: VxFuture>(fut: Fut, Tracked(w): Tracked<&mut World>) -> (out: Fut::Out)
    ensures fut.completes(*old(w), *final(w), out),
{ unimplemented!() }

/// the future returned by a user callback
#[verifier::external_body]
#[verifier::reject_recursive_types(R)]
pub struct UserFut<R> { _p: PhantomData<R> }

impl<R> VxFuture for UserFut<R> {
    type Out = R;
    open spec fn completes(&self, w0: World, w1: World, out: R) -> bool {
        trace(w1) == trace(w0).push(Ev::UserEnd) && keeps(w0, w1)
    }
}

/// R6: a call of a user callback with two arguments (fold variants) / one argument (for_each variants)
#[verifier::external_body]
pub fn vx_user_call<Fun, A, B, R>(f: &Fun, a: A, b: B, Tracked(w): Tracked<&mut World>) -> (r: UserFut<R>)
    ensures trace(*final(w)) == trace(*old(w)).push(Ev::UserStart), keeps(*old(w), *final(w)),
{ unimplemented!() }

#[verifier::external_body]
pub fn vx_user_call1<Fun, A, R>(f: &Fun, a: A, Tracked(w): Tracked<&mut World>) -> (r: UserFut<R>)
    ensures trace(*final(w)) == trace(*old(w)).push(Ev::UserStart), keeps(*old(w), *final(w)),
{ unimplemented!() }

/// tokio `Sender::send(v)`: the returned future completes with Ok once the value is queued, with Err iff the
/// receiver is gone. (fn_graph never fills the done channel: at most n ids are ever sent and cap >= n.)
#[verifier::external_body]
pub struct SendFut { _p: usize }

impl SendFut {
    pub uninterp spec fn id(&self) -> int;
    pub uninterp spec fn chan(&self) -> int;
}

/// tokio::sync::mpsc::error::SendError<T>(pub T)
pub struct SendError<T>(pub T);

impl VxFuture for SendFut {
    type Out = Result<(), SendError<NodeIndex<FnIdInner>>>;
    open spec fn completes(&self, w0: World, w1: World, out: Result<(), SendError<NodeIndex<FnIdInner>>>) -> bool {
        &&& (out is Ok ==> trace(w1) == trace(w0).push(Ev::DoneSend(self.id())))
        &&& (out is Err ==> trace(w1) == trace(w0))
        &&& keeps(w0, w1)
    }
}

impl Sender<NodeIndex<FnIdInner>> {
    #[verifier::external_body]
    pub fn send(&self, v: NodeIndex<FnIdInner>, Tracked(w): Tracked<&mut World>) -> (r: SendFut)
        ensures r.id() == v.0.0, r.chan() == self.chan(), trace(*final(w)) == trace(*old(w)), keeps(*old(w), *final(w)),
    { unimplemented!() }
}

/// R6: explicit drop of the scheduler's done sender (`fn_done_tx.take();`)
#[verifier::external_body]
pub fn vx_drop_done_tx<T>(x: Option<Sender<T>>, Tracked(w): Tracked<&mut World>)
    ensures
        x is None ==> trace(*final(w)) == trace(*old(w)),
        x is Some ==> trace(*final(w)) == trace(*old(w)).push(Ev::DoneTxDrop),
        //  after `cell.take()` the cell is empty whatever it held
        done_tx_gone(*final(w)), ticket(*final(w)) == ticket(*old(w)), final(w).n == old(w).n, final(w).es == old(w).es,
{ unimplemented!() }

/// the result (error) channel of try_for_each_concurrent*: `result_tx.send(e)` (R4: renamed `send_err` by receiver)
#[verifier::external_body]
#[verifier::reject_recursive_types(T)]
pub struct ErrSendFut<T> { _p: PhantomData<T> }

impl<T> VxFuture for ErrSendFut<T> {
    type Out = Result<(), SendError<T>>;
    /// ASSUMED: the result receiver is owned by the enclosing call and read only after join!, and at most one
    /// error per item is sent into a channel of capacity max(1, n): the send succeeds without blocking
    open spec fn completes(&self, w0: World, w1: World, out: Result<(), SendError<T>>) -> bool {
        out is Ok && trace(w1) == trace(w0).push(Ev::ErrSend) && keeps(w0, w1)
    }
}

impl<T> Sender<T> {
    #[verifier::external_body]
    pub fn send_err(&self, v: T, Tracked(w): Tracked<&mut World>) -> (r: ErrSendFut<T>)
        ensures trace(*final(w)) == trace(*old(w)), keeps(*old(w), *final(w)),
    { unimplemented!() }
}

#[verifier::external]
impl<T> core::fmt::Debug for SendError<T> {
    fn fmt(&self, f: &mut core::fmt::Formatter<'_>) -> core::fmt::Result { f.write_str("SendError") }
}

/// the future returned by a fallible user callback (try_* variants)
#[verifier::external_body]
#[verifier::reject_recursive_types(T)]
#[verifier::reject_recursive_types(E)]
pub struct TryUserFut<T, E> { _p: PhantomData<(T, E)> }

impl<T, E> VxFuture for TryUserFut<T, E> {
    type Out = Result<T, E>;
    open spec fn completes(&self, w0: World, w1: World, out: Result<T, E>) -> bool {
        &&& (out is Ok ==> trace(w1) == trace(w0).push(Ev::UserEnd))
        &&& (out is Err ==> trace(w1) == trace(w0).push(Ev::UserFail))
        &&& keeps(w0, w1)
    }
}

#[verifier::external_body]
pub fn vx_user_try_call<Fun, A, B, T, E>(f: &Fun, a: A, b: B, Tracked(w): Tracked<&mut World>) -> (r: TryUserFut<T, E>)
    ensures trace(*final(w)) == trace(*old(w)).push(Ev::UserStart), keeps(*old(w), *final(w)),
{ unimplemented!() }

#[verifier::external_body]
pub fn vx_user_try_call1<Fun, A, T, E>(f: &Fun, a: A, Tracked(w): Tracked<&mut World>) -> (r: TryUserFut<T, E>)
    ensures trace(*final(w)) == trace(*old(w)).push(Ev::UserStart), keeps(*old(w), *final(w)),
{ unimplemented!() }
