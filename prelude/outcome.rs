// ===== prelude/outcome.rs — std pieces used by StreamOutcome::new and the outcome helpers =====

// ASSUMED (std): `<[T]>::contains(x)` is true iff some element equals x
pub assume_specification<T: PartialEq> [<[T]>::contains] (s: &[T], x: &T) -> (r: bool)
    ensures T::obeys_eq_spec() ==> (r <==> exists|i: int| 0 <= i < s@.len() && (#[trigger] s@[i]).eq_spec(x));

pub open spec fn seq_has(s: Seq<NodeIndex<FnIdInner>>, v: int) -> bool {
    exists|i: int| 0 <= i < s.len() && (#[trigger] s[i]).0.0 == v
}

/// `np` lists, in increasing index order, exactly the ids 0..n that do not occur in `p`
pub open spec fn is_ordered_complement(n: int, p: Seq<NodeIndex<FnIdInner>>, np: Seq<NodeIndex<FnIdInner>>) -> bool {
    &&& forall|j: int| 0 <= j < np.len() ==> 0 <= (#[trigger] np[j]).0.0 < n && !seq_has(p, np[j].0.0 as int)
    &&& forall|i: int, j: int| 0 <= i < j < np.len() ==> (#[trigger] np[i]).0.0 < (#[trigger] np[j]).0.0
    &&& forall|v: int| 0 <= v < n && !seq_has(p, v) ==> #[trigger] seq_has(np, v)
}
