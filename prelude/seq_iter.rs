// ===== prelude/seq_iter.rs — sequential iteration API: Iterator::map, synchronous user callbacks; ASSUMED =====

impl<T> VxIter<T> {
    /// Iterator::map: the closure is called once per element, in order; `rest()` are its results
    #[verifier::external_body]
    pub fn map<U, Fun: FnMut(T) -> U>(self, f: Fun) -> (r: VxIter<U>)
        requires forall|i: int| 0 <= i < self.rest().len() ==> f.requires((#[trigger] self.rest()[i],)),
        ensures
            r.rest().len() == self.rest().len(),
            forall|i: int| 0 <= i < self.rest().len() ==> f.ensures((self.rest()[i],), #[trigger] r.rest()[i]),
    { unimplemented!() }
}

/// R6: a synchronous user callback of the sequential API (`fn_fold(seed, f)`, `fn_for_each(f)`): one visit
#[verifier::external_body]
pub fn vx_user_visit<Fun, A, B, R>(f: &Fun, a: A, b: B, Tracked(w): Tracked<&mut World>) -> (r: R)
    ensures *final(w) == (World { trace: old(w).trace.push(Ev::UserStart), ..*old(w) }),
{ unimplemented!() }

#[verifier::external_body]
pub fn vx_user_visit1<Fun, A, R>(f: &Fun, a: A, Tracked(w): Tracked<&mut World>) -> (r: R)
    ensures *final(w) == (World { trace: old(w).trace.push(Ev::UserStart), ..*old(w) }),
{ unimplemented!() }

impl<'a, N> NodeRefIter<'a, N> {
    /// Iterator::map on daggy's node_references(): the closure is called once per node, in index order, with
    /// (NodeIndex(i), &weights[i])
    #[verifier::external_body]
    pub fn map<U, Fun: FnMut((NodeIndex<FnIdInner>, &'a N)) -> U>(self, f: Fun) -> (r: VxIter<U>)
        requires self.pos() == 0, forall|p: (NodeIndex<FnIdInner>, &'a N)| #[trigger] f.requires((p,)),
        ensures
            r.rest().len() == self.len(),
            forall|i: int| 0 <= i < self.len() ==> f.ensures(((nid(i), &self.ws()[i]),), #[trigger] r.rest()[i]),
    { unimplemented!() }
}
