// ===== prelude/rank_add_rank.rs — operator spec for `impl Add for Rank` (Rank + Rank; not used inside the crate) =====
// The extracted impl body is VERIFIED against add_spec/add_req (the precondition is the absence of usize overflow).
impl vstd::std_specs::ops::AddSpecImpl<Rank> for Rank {
    open spec fn obeys_add_spec() -> bool { true }
    open spec fn add_req(self, rhs: Rank) -> bool { self.0 + rhs.0 <= usize::MAX }
    open spec fn add_spec(self, rhs: Rank) -> Rank { Rank((self.0 + rhs.0) as usize) }
}
