// ===== prelude/opts_base.rs — imports for the StreamOpts unit =====
use std::marker::PhantomData;
