// ===== prelude/entry_interruptible.rs — `InterruptibleStreamExt::interruptible_with` as used by the stream entry points (unit U23), ASSUMED shape =====
/// the stream returned by `.interruptible_with(state)` (interruptible 0.2.4)
#[verifier::external_body]
#[verifier::reject_recursive_types(F)]
pub struct InterruptibleStream<'f, F> { _p: core::marker::PhantomData<&'f F> }

/// the input-output relation of `interruptible_with`: DEFINED as whatever the `interruptible` crate does with this stream and state
pub uninterp spec fn interruptible_with_rel<'f, F>(inner: StreamInternal<'f, F>, st: InterruptibilityState<'f, 'f>, r: InterruptibleStream<'f, F>) -> bool;

impl<'f, F> StreamInternal<'f, F> {
    #[verifier::external_body]
    pub fn interruptible_with(self, st: InterruptibilityState<'f, 'f>) -> (r: InterruptibleStream<'f, F>)
        ensures interruptible_with_rel(self, st, r),
    { unimplemented!() }
}
