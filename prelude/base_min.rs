// ===== prelude/base_min.rs — the abstract edge view only (for pure lemma units) =====
pub ghost enum EdgeKind { Logic, Contains, Data }

pub ghost struct EdgeV {
    pub src: int,
    pub dst: int,
    pub kind: EdgeKind,
}
