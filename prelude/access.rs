// ===== prelude/access.rs — data access declarations (src/data_access.rs, src/type_ids.rs), ASSUMED =====
// `TypeIds = SmallVec<[TypeId; 8]>`: a sequence of opaque ids with decidable equality.
#[derive(Clone, Copy, PartialEq, Eq, Structural)]
pub struct TypeId(pub u128);

#[verifier::external_body]
pub struct TypeIds { _p: usize }

impl TypeIds {
    pub uninterp spec fn view(&self) -> Seq<TypeId>;

    /// SmallVec::iter
    #[verifier::external_body]
    pub fn vx_iter(&self) -> (r: VxIter<&TypeId>)
        ensures r.rest().len() == self.view().len(), forall|i: int| #![trigger r.rest()[i]] #![trigger self.view()[i]] 0 <= i < self.view().len() ==> *r.rest()[i] == self.view()[i],
    { unimplemented!() }
}

/// trait DataAccessDyn (src/data_access.rs). ASSUMED: a function reports the same access lists every time it is asked.
pub trait DataAccessDyn {
    spec fn borrows_spec(&self) -> Seq<TypeId>;
    spec fn borrow_muts_spec(&self) -> Seq<TypeId>;
    fn borrows(&self) -> (r: TypeIds)
        ensures r.view() == self.borrows_spec();
    fn borrow_muts(&self) -> (r: TypeIds)
        ensures r.view() == self.borrow_muts_spec();
}

pub open spec fn overlap(a: Seq<TypeId>, b: Seq<TypeId>) -> bool {
    exists|i: int, j: int| 0 <= i < a.len() && 0 <= j < b.len() && #[trigger] a[i] == #[trigger] b[j]
}

/// the property statement's conflict: access to the same data type, at least one side mutably
pub open spec fn conflict<F: DataAccessDyn>(x: &F, y: &F) -> bool {
    ||| overlap(x.borrows_spec(), y.borrow_muts_spec())
    ||| overlap(x.borrow_muts_spec(), y.borrows_spec())
    ||| overlap(x.borrow_muts_spec(), y.borrow_muts_spec())
}
