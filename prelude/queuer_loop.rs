// ===== prelude/queuer_loop.rs — the done-notification stream the queuer folds over (futures `poll_fn` + tokio `poll_recv`), ASSUMED =====
// `stream::poll_fn(move |cx| fn_done_rx.poll_recv(cx))` (rule R29) yields the values received on the done channel until the
// channel is closed and empty. Asking for the next item is an await: while the queuer waits, the scheduler side acts (EM2).

#[verifier::external_body]
pub struct DoneStream { _p: usize }

/// R29: the stream of the values received on `rx`
#[verifier::external_body]
pub fn vx_done_stream(rx: Receiver<NodeIndex<FnIdInner>>) -> (r: DoneStream)
    requires rx.chan() == DONE,
{ unimplemented!() }

/// What the scheduler side may do to the run's state while the queuer waits for the next done notification. The queuer owns the
/// ready history, its ready sender, the set of processed notifications and the done receiver; the scheduler side takes
/// functions out of the ready channel (at most what was sent), may drop the ready receiver, sends done notifications and
/// drops done senders. (Each conjunct is the frame of a scheduler-side stub: `poll_recv` on READY, `send` / drop on DONE.)
pub open spec fn scheduler_acted(w0: World, w1: World) -> bool {
    &&& w1.n == w0.n && w1.es == w0.es
    &&& w1.done_recv == w0.done_recv
    &&& w1.ready.sent == w0.ready.sent && w1.ready.senders == w0.ready.senders && w1.ready.cap == w0.ready.cap
    &&& w0.ready.recvd <= w1.ready.recvd <= w1.ready.sent.len()
    &&& (w1.ready.rx_alive ==> w0.ready.rx_alive)
    &&& w1.done.cap == w0.done.cap && w1.done.rx_alive == w0.done.rx_alive
    &&& is_prefix(w0.done.sent, w1.done.sent)
}

/// RELY of the queuer on the scheduler side (C03 there: a function is handed out at most once, and an item sends at most one
/// done notification; `FnRef::drop` likewise): each id arrives on the done channel at most once and is an id of this graph
pub open spec fn done_rely(w: World) -> bool {
    &&& no_dup(w.done.sent)
    &&& forall|i: int| 0 <= i < w.done.sent.len() ==> 0 <= #[trigger] w.done.sent[i] < w.n
}

impl DoneStream {
    /// `StreamExt::next().await` as used by `fold`: the scheduler side acts, then the head of the done channel is taken;
    /// `None` exactly when the channel is empty and every sender is gone
    #[verifier::external_body]
    pub fn next(&mut self, Tracked(w): Tracked<&mut World>) -> (r: Option<NodeIndex<FnIdInner>>)
        requires 0 <= old(w).done.recvd <= old(w).done.sent.len(),
        ensures
            scheduler_acted(*old(w), *final(w)),
            done_rely(*old(w)) ==> done_rely(*final(w)),
            //  (a consequence of the prefix relation, stated for the solver) the already received part is the same set
            seq_to_set(final(w).done.sent, old(w).done.recvd) == seq_to_set(old(w).done.sent, old(w).done.recvd),
            match r {
                Some(id) => old(w).done.recvd < final(w).done.sent.len() && id.0.0 == final(w).done.sent[old(w).done.recvd]
                    && final(w).done.recvd == old(w).done.recvd + 1,
                None => final(w).done.recvd == old(w).done.recvd && final(w).done.recvd == final(w).done.sent.len() && final(w).done.senders == 0,
            },
    { unimplemented!() }
}

/// The state in which the queuer future is CREATED (`stream_setup_init_concurrent`, proved there as a named obligation) and in
/// which it starts to run (precondition of `fn_ready_queuer`, unit U24). Every conjunct is stable under `scheduler_acted`, so
/// it still holds when the lazily run future is first polled.
pub open spec fn queuer_start_ok(w: World, gs: &Dag<(), Edge, FnIdInner>, counts: Seq<usize>, ready_tx_chan: int, done_rx_chan: int) -> bool {
    &&& gs.wf()
    &&& world_wf(w)
    &&& w.n == gs.n() && w.es == gs.edges()
    &&& counts_inv(w, counts)
    &&& ready_inv(w, counts, true)
    &&& w.done_recv == Set::<int>::empty() && w.done.recvd == 0
    &&& done_rely(w)
    &&& ready_tx_chan == READY && done_rx_chan == DONE
}
