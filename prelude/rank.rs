// ===== prelude/rank.rs — comparison specs for the extracted `Rank` =====
// ASSUMED: `#[derive(PartialEq, Eq, PartialOrd, Ord)]` on the one-field tuple struct `Rank` compares
// the field (std's derive contract; additionally proved by a full-domain Kani harness, kani/).
impl vstd::std_specs::cmp::PartialEqSpecImpl for Rank {
    open spec fn obeys_eq_spec() -> bool { true }
    open spec fn eq_spec(&self, other: &Rank) -> bool { self.0 == other.0 }
}
impl vstd::std_specs::cmp::PartialOrdSpecImpl for Rank {
    open spec fn obeys_partial_cmp_spec() -> bool { true }
    open spec fn partial_cmp_spec(&self, other: &Rank) -> Option<core::cmp::Ordering> {
        if self.0 < other.0 { Some(core::cmp::Ordering::Less) }
        else if self.0 == other.0 { Some(core::cmp::Ordering::Equal) }
        else { Some(core::cmp::Ordering::Greater) }
    }
}
impl vstd::std_specs::cmp::OrdSpecImpl for Rank {
    open spec fn obeys_cmp_spec() -> bool { true }
    open spec fn cmp_spec(&self, other: &Rank) -> core::cmp::Ordering {
        if self.0 < other.0 { core::cmp::Ordering::Less }
        else if self.0 == other.0 { core::cmp::Ordering::Equal }
        else { core::cmp::Ordering::Greater }
    }
}

