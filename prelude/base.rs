// ===== prelude/base.rs — std / daggy / petgraph stand-ins with ASSUMED contracts (DESIGN §4) =====
use core::marker::PhantomData;
use std::collections::VecDeque;
use std::ops::Add;
use std::ops::Index;
use std::cmp;
use vstd::std_specs::cmp::{PartialEqSpec, PartialOrdSpec, OrdSpec};

// ---- petgraph NodeIndex / EdgeIndex (petgraph::graph) -------------------------------------------
// NodeIndex<Ix> is a transparent wrapper of the index type; `index()`/`new()` convert from/to usize.
#[derive(Clone, Copy, PartialEq, Eq, Structural)]
pub struct NodeIndex<Ix>(pub Ix);

#[derive(Clone, Copy, PartialEq, Eq, Structural)]
pub struct EdgeIndex<Ix>(pub Ix);

impl NodeIndex<FnIdInner> {
    #[verifier::external_body]
    pub fn index(self) -> (r: usize)
        ensures r == self.0.0,
    { unimplemented!() }

    #[verifier::external_body]
    pub fn new(x: usize) -> (r: Self)
        ensures r.0.0 == x,
    { unimplemented!() }
}

// ASSUMED: the derived PartialEq of the index newtypes compares the wrapped value (std derive contract)
impl<Ix: PartialEq> vstd::std_specs::cmp::PartialEqSpecImpl for NodeIndex<Ix> {
    open spec fn obeys_eq_spec() -> bool { Ix::obeys_eq_spec() }
    open spec fn eq_spec(&self, other: &NodeIndex<Ix>) -> bool { self.0.eq_spec(&other.0) }
}
impl vstd::std_specs::cmp::PartialEqSpecImpl for FnIdInner {
    open spec fn obeys_eq_spec() -> bool { true }
    open spec fn eq_spec(&self, other: &FnIdInner) -> bool { self.0 == other.0 }
}

pub open spec fn nid(i: int) -> NodeIndex<FnIdInner> {
    NodeIndex(FnIdInner(i as usize))
}

// ---- abstract view of a daggy Dag ------------------------------------------------------------------
pub ghost struct EdgeV {
    pub src: int,
    pub dst: int,
    pub kind: Edge,
}

#[verifier::external_body]
#[verifier::reject_recursive_types(N)]
#[verifier::reject_recursive_types(E)]
#[verifier::reject_recursive_types(Ix)]
pub struct Dag<N, E, Ix> {
    _p: PhantomData<(N, E, Ix)>,
}

/// edge indices leaving `a`, most recently added first (petgraph adjacency-list order)
pub open spec fn out_edges(edges: Seq<EdgeV>, a: int) -> Seq<int>
    decreases edges.len(),
{
    if edges.len() == 0 {
        Seq::empty()
    } else {
        let k = edges.len() - 1;
        let rest = out_edges(edges.drop_last(), a);
        if edges[k].src == a { seq![k as int] + rest } else { rest }
    }
}

/// edge indices entering `a`, most recently added first
pub open spec fn in_edges(edges: Seq<EdgeV>, a: int) -> Seq<int>
    decreases edges.len(),
{
    if edges.len() == 0 {
        Seq::empty()
    } else {
        let k = edges.len() - 1;
        let rest = in_edges(edges.drop_last(), a);
        if edges[k].dst == a { seq![k as int] + rest } else { rest }
    }
}

impl<N> Dag<N, Edge, FnIdInner> {
    pub uninterp spec fn n(&self) -> nat;
    pub uninterp spec fn weights(&self) -> Seq<N>;
    pub uninterp spec fn edges(&self) -> Seq<EdgeV>;
    /// a topological numbering witnessing acyclicity (daggy's invariant)
    pub uninterp spec fn topo(&self, i: int) -> int;

    pub open spec fn wf(&self) -> bool {
        &&& self.weights().len() == self.n()
        &&& self.n() <= usize::MAX
        &&& self.edges().len() <= usize::MAX
        &&& forall|e: int| 0 <= e < self.edges().len() ==> {
                &&& 0 <= #[trigger] self.edges()[e].src < self.n()
                &&& 0 <= self.edges()[e].dst < self.n()
                &&& self.topo(self.edges()[e].src) < self.topo(self.edges()[e].dst)
            }
        &&& forall|i: int| 0 <= i < self.n() ==> 0 <= #[trigger] self.topo(i) < self.n()
    }

    #[verifier::external_body]
    pub fn node_count(&self) -> (r: usize)
        ensures r == self.n(),
    { unimplemented!() }

    #[verifier::external_body]
    pub fn node_references(&self) -> (r: NodeRefIter<'_, N>)
        ensures r.pos() == 0, r.len() == self.n(), r.ws() == self.weights(),
    { unimplemented!() }

    #[verifier::external_body]
    pub fn children(&self, a: NodeIndex<FnIdInner>) -> (r: Children)
        requires a.0.0 < self.n(),
        ensures r.node() == a.0.0,
    { unimplemented!() }

    #[verifier::external_body]
    pub fn parents(&self, a: NodeIndex<FnIdInner>) -> (r: Parents)
        requires a.0.0 < self.n(),
        ensures r.node() == a.0.0,
    { unimplemented!() }
}

// node_references(): yields (NodeIndex(i), &weights[i]) for i = 0..n in index order
#[verifier::external_body]
#[verifier::reject_recursive_types(N)]
pub struct NodeRefIter<'a, N> {
    _p: PhantomData<&'a N>,
}

impl<'a, N> NodeRefIter<'a, N> {
    pub uninterp spec fn pos(&self) -> int;
    pub uninterp spec fn len(&self) -> int;
    pub uninterp spec fn ws(&self) -> Seq<N>;

    #[verifier::external_body]
    pub fn next(&mut self) -> (r: Option<(NodeIndex<FnIdInner>, &'a N)>)
        ensures
            final(self).len() == old(self).len(),
            final(self).ws() == old(self).ws(),
            old(self).pos() >= old(self).len() ==> r.is_none() && final(self).pos() == old(self).pos(),
            old(self).pos() < old(self).len() ==> r.is_some() && r.unwrap().0.0.0 == old(self).pos()
                && *r.unwrap().1 == old(self).ws()[old(self).pos()]
                && final(self).pos() == old(self).pos() + 1,
    { unimplemented!() }
}

// daggy::Children / Parents walkers
#[verifier::external_body]
pub struct Children { _p: usize }
#[verifier::external_body]
pub struct Parents { _p: usize }

impl Children {
    pub uninterp spec fn node(&self) -> int;

    /// `Walker::iter(self, graph)`: one item per edge leaving the node
    #[verifier::external_body]
    pub fn iter<N>(self, g: &Dag<N, Edge, FnIdInner>) -> (r: AdjIter)
        ensures
            r.rest() == out_edges(g.edges(), self.node()),
            r.es() == g.edges(),
            r.outgoing(),
    { unimplemented!() }
}

impl Parents {
    pub uninterp spec fn node(&self) -> int;

    #[verifier::external_body]
    pub fn iter<N>(self, g: &Dag<N, Edge, FnIdInner>) -> (r: AdjIter)
        ensures
            r.rest() == in_edges(g.edges(), self.node()),
            r.es() == g.edges(),
            !r.outgoing(),
    { unimplemented!() }

    /// `Walker::walk_next`: the first item `iter` would yield
    #[verifier::external_body]
    pub fn walk_next<N>(&mut self, g: &Dag<N, Edge, FnIdInner>) -> (r: Option<(EdgeIndex<FnIdInner>, NodeIndex<FnIdInner>)>)
        ensures
            r.is_none() <==> in_edges(g.edges(), old(self).node()).len() == 0,
            r.is_some() ==> r.unwrap().0.0.0 == in_edges(g.edges(), old(self).node())[0]
                && r.unwrap().1.0.0 == g.edges()[in_edges(g.edges(), old(self).node())[0]].src,
    { unimplemented!() }
}

/// iterator over adjacent edges: rest() = remaining edge indices
#[verifier::external_body]
pub struct AdjIter { _p: usize }

impl AdjIter {
    pub uninterp spec fn rest(&self) -> Seq<int>;
    pub uninterp spec fn es(&self) -> Seq<EdgeV>;
    pub uninterp spec fn outgoing(&self) -> bool;

    #[verifier::external_body]
    pub fn next(&mut self) -> (r: Option<(EdgeIndex<FnIdInner>, NodeIndex<FnIdInner>)>)
        ensures
            final(self).es() == old(self).es(),
            final(self).outgoing() == old(self).outgoing(),
            old(self).rest().len() == 0 ==> r.is_none() && final(self).rest() == old(self).rest(),
            old(self).rest().len() > 0 ==> r.is_some()
                && r.unwrap().0.0.0 == old(self).rest()[0]
                && r.unwrap().1.0.0 == (if old(self).outgoing() { old(self).es()[old(self).rest()[0]].dst } else { old(self).es()[old(self).rest()[0]].src })
                && final(self).rest() == old(self).rest().skip(1),
    { unimplemented!() }
}

// ---- mutation / queries used by the builder --------------------------------------------------------
#[verifier::external_body]
#[verifier::reject_recursive_types(E)]
pub struct WouldCycle<E> { _p: PhantomData<E> }

#[verifier::external]
impl<E> core::fmt::Debug for WouldCycle<E> {
    fn fmt(&self, f: &mut core::fmt::Formatter<'_>) -> core::fmt::Result { f.write_str("WouldCycle") }
}

#[verifier::external_body]
pub struct DfsSpace { _p: usize }

/// first edge index a -> b, if any
pub open spec fn find_edge_spec(es: Seq<EdgeV>, a: int, b: int) -> Option<int> {
    if exists|e: int| 0 <= e < es.len() && #[trigger] es[e].src == a && es[e].dst == b {
        Some(choose|e: int| 0 <= e < es.len() && #[trigger] es[e].src == a && es[e].dst == b)
    } else {
        None
    }
}

impl<N> Dag<N, Edge, FnIdInner> {
    /// daggy::Dag::update_edge (source read, daggy 0.9.0 lib.rs): existing edge a->b: weight replaced;
    /// otherwise add_edge with cycle check (WouldCycle iff a == b or b reaches a); graph untouched on Err.
    #[verifier::external_body]
    pub fn update_edge(&mut self, a: NodeIndex<FnIdInner>, b: NodeIndex<FnIdInner>, k: Edge) -> (r: Result<EdgeIndex<FnIdInner>, WouldCycle<Edge>>)
        requires old(self).wf(), a.0.0 < old(self).n(), b.0.0 < old(self).n(),
        ensures
            final(self).wf(),
            final(self).n() == old(self).n(),
            final(self).weights() == old(self).weights(),
            has_edge(old(self).edges(), a.0.0 as int, b.0.0 as int) ==> r.is_ok()
                && final(self).edges().len() == old(self).edges().len()
                && (forall|e: int| 0 <= e < old(self).edges().len() ==> (#[trigger] final(self).edges()[e]).src == old(self).edges()[e].src
                        && final(self).edges()[e].dst == old(self).edges()[e].dst)
                && (forall|e: int| 0 <= e < old(self).edges().len() && !(old(self).edges()[e].src == a.0.0 && old(self).edges()[e].dst == b.0.0)
                        ==> #[trigger] final(self).edges()[e] == old(self).edges()[e])
                && (exists|e: int| 0 <= e < old(self).edges().len() && old(self).edges()[e].src == a.0.0 && old(self).edges()[e].dst == b.0.0
                        && (#[trigger] final(self).edges()[e]).kind == k && r.unwrap().0.0 == e),
            !has_edge(old(self).edges(), a.0.0 as int, b.0.0 as int) && (a.0.0 == b.0.0 || reach(old(self).edges(), b.0.0 as int, a.0.0 as int))
                ==> r.is_err() && final(self).edges() == old(self).edges(),
            !has_edge(old(self).edges(), a.0.0 as int, b.0.0 as int) && !(a.0.0 == b.0.0 || reach(old(self).edges(), b.0.0 as int, a.0.0 as int))
                ==> r.is_ok() && r.unwrap().0.0 == old(self).edges().len()
                    && final(self).edges() == old(self).edges().push(EdgeV { src: a.0.0 as int, dst: b.0.0 as int, kind: k }),
    { unimplemented!() }
}

/// petgraph::algo::has_path_connecting(g, a, b, None): true iff b is reachable from a (a reaches itself)
#[verifier::external_body]
pub fn has_path_connecting<N>(g: &Dag<N, Edge, FnIdInner>, a: NodeIndex<FnIdInner>, b: NodeIndex<FnIdInner>, space: Option<&mut DfsSpace>) -> (r: bool)
    requires g.wf(), a.0.0 < g.n(), b.0.0 < g.n(),
    ensures r == reach(g.edges(), a.0.0 as int, b.0.0 as int),
{ unimplemented!() }

impl<N> Index<NodeIndex<FnIdInner>> for Dag<N, Edge, FnIdInner> {
    type Output = N;
    #[verifier::external_body]
    fn index(&self, i: NodeIndex<FnIdInner>) -> (r: &N)
        ensures *r == self.weights()[i.0.0 as int],
    { unimplemented!() }
}

impl<N> vstd::std_specs::core::IndexSpecImpl<NodeIndex<FnIdInner>> for Dag<N, Edge, FnIdInner> {
    open spec fn index_req(&self, i: &NodeIndex<FnIdInner>) -> bool { i.0.0 < self.n() }
}

// ---- petgraph Graph access through daggy::Dag::graph() ---------------------------------------------
impl<N> Dag<N, Edge, FnIdInner> {
    /// `Dag::graph()`: the inner petgraph graph; it has the same nodes and edges (modelled as the Dag itself)
    #[verifier::external_body]
    pub fn graph(&self) -> (r: &Dag<N, Edge, FnIdInner>)
        ensures r == self,
    { unimplemented!() }

    /// `Graph::node_indices()`: NodeIndex 0..n in order
    #[verifier::external_body]
    pub fn node_indices(&self) -> (r: NodeIdxIter)
        ensures r.pos() == 0, r.len() == self.n(),
    { unimplemented!() }
}

#[verifier::external_body]
pub struct NodeIdxIter { _p: usize }

impl NodeIdxIter {
    pub uninterp spec fn pos(&self) -> int;
    pub uninterp spec fn len(&self) -> int;

    #[verifier::external_body]
    pub fn next(&mut self) -> (r: Option<NodeIndex<FnIdInner>>)
        ensures
            final(self).len() == old(self).len(),
            old(self).pos() >= old(self).len() ==> r.is_none() && final(self).pos() == old(self).pos(),
            old(self).pos() < old(self).len() ==> r.is_some() && r.unwrap().0.0 == old(self).pos() && final(self).pos() == old(self).pos() + 1,
    { unimplemented!() }
}

/// `std::thread::panicking()`: whether the current thread is unwinding - a fact about the caller's situation, unconstrained
/// (code that behaves differently while unwinding is verified for both answers)
pub assume_specification [std::thread::panicking] () -> bool;

/// `cfg!(debug_assertions)` of the build: unconstrained, so code with `debug_assert!` (rule R26) is verified for both
/// profiles - its condition is evaluated only where this is true.
#[verifier::external_body]
pub fn vx_debug_assertions() -> (b: bool) { unimplemented!() }

// ASSUMED (std): `<Vec<T> as AsRef<[T]>>::as_ref` is the slice of the same elements
/// std::mem::take: moves the value out and leaves `T::default()` behind (what the default IS is not specified here)
pub assume_specification<T: std::default::Default> [std::mem::take] (x: &mut T) -> (r: T)
    ensures r == *old(x);

pub assume_specification<T, A: std::alloc::Allocator> [<std::vec::Vec<T, A> as std::convert::AsRef<[T]>>::as_ref] (v: &std::vec::Vec<T, A>) -> (r: &[T])
    ensures r@ == v@;

impl<N> std::ops::IndexMut<NodeIndex<FnIdInner>> for Dag<N, Edge, FnIdInner> {
    /// `&mut dag[i]`: exclusive access to the weight of node i; nothing else of the graph changes
    #[verifier::external_body]
    fn index_mut(&mut self, i: NodeIndex<FnIdInner>) -> (r: &mut N)
        ensures
            *r == old(self).weights()[i.0.0 as int],
            final(self).n() == old(self).n(), final(self).edges() == old(self).edges(),
            final(self).weights() == old(self).weights().update(i.0.0 as int, *final(r)),
            final(self).wf() == old(self).wf(),
    { unimplemented!() }
}

impl<N> Dag<N, Edge, FnIdInner> {
    /// `Dag::node_weight(i)`: Some(&weights[i]) iff i is a node
    #[verifier::external_body]
    pub fn node_weight(&self, i: NodeIndex<FnIdInner>) -> (r: Option<&N>)
        ensures
            i.0.0 < self.n() ==> r is Some && *r->Some_0 == self.weights()[i.0.0 as int],
            i.0.0 >= self.n() ==> r is None,
    { unimplemented!() }
}

impl<N> Dag<N, Edge, FnIdInner> {
    /// `Dag::edge_count()`
    #[verifier::external_body]
    pub fn edge_count(&self) -> (r: usize)
        ensures r == self.edges().len(),
    { unimplemented!() }
}

