// ===== prelude/graphspec_min.rs — paths and reachability over an edge list (same definitions as graphspec.rs) =====
pub open spec fn has_edge(es: Seq<EdgeV>, a: int, b: int) -> bool {
    exists|e: int| 0 <= e < es.len() && #[trigger] es[e].src == a && es[e].dst == b
}

pub open spec fn is_path(es: Seq<EdgeV>, p: Seq<int>) -> bool {
    &&& p.len() >= 1
    &&& forall|i: int| 0 <= i < p.len() - 1 ==> #[trigger] has_edge(es, p[i], p[i + 1])
}

pub open spec fn reach(es: Seq<EdgeV>, a: int, b: int) -> bool {
    exists|p: Seq<int>| #[trigger] is_path(es, p) && p[0] == a && p.last() == b
}
