// ===== prelude/spec_augment.rs — what a Data edge added by build() must satisfy (C06, C11, C12) =====
pub open spec fn appended_ok<F: DataAccessDyn>(ed: EdgeV, es0: Seq<EdgeV>, ws: Seq<F>, ranks: Seq<Rank>) -> bool {
    &&& ed.kind == Edge::Data
    &&& 0 <= ed.src < ws.len() && 0 <= ed.dst < ws.len() && ed.src != ed.dst
    &&& conflict(&ws[ed.src], &ws[ed.dst])
    &&& (ranks[ed.src].0 < ranks[ed.dst].0 || (ranks[ed.src].0 == ranks[ed.dst].0 && ed.src < ed.dst))
    &&& !reach(es0, ed.src, ed.dst) && !reach(es0, ed.dst, ed.src)
}

/// C12: no appended edge is implied by the other edges: removing it disconnects its endpoints
pub open spec fn non_redundant(es: Seq<EdgeV>, from: int) -> bool {
    forall|x: int| from <= x < es.len() ==> !reach(es.remove(x), (#[trigger] es[x]).src, es[x].dst)
}
