// ===== prelude/build_inv.rs — the part of the built-graph invariant (unit U4: `built`) that the run-time setup uses =====
pub open spec fn reversed_edges(a: Seq<EdgeV>, b: Seq<EdgeV>) -> bool {
    &&& a.len() == b.len()
    &&& forall|e: int| 0 <= e < a.len() ==> (#[trigger] b[e]).src == a[e].dst && b[e].dst == a[e].src && b[e].kind == a[e].kind
}

pub open spec fn ids_of(s: Seq<NodeIndex<FnIdInner>>) -> Seq<int> {
    Seq::new(s.len(), |i: int| s[i].0.0 as int)
}
