// ===== prelude/ranksum.rs — sum of ranks (work bound of RankCalc), lemmas PROVED =====
pub open spec fn sum_ranks(s: Seq<Rank>) -> nat
    decreases s.len(),
{
    if s.len() == 0 { 0 } else { sum_ranks(s.drop_last()) + s.last().0 as nat }
}

pub proof fn lemma_sum_update(s: Seq<Rank>, i: int, v: Rank)
    requires 0 <= i < s.len(),
    ensures sum_ranks(s.update(i, v)) == sum_ranks(s) - s[i].0 + v.0,
    decreases s.len(),
{
    let t = s.update(i, v);
    if i == s.len() - 1 {
        assert(t.drop_last() =~= s.drop_last());
    } else {
        assert(t.drop_last() =~= s.drop_last().update(i, v));
        lemma_sum_update(s.drop_last(), i, v);
    }
}

pub proof fn lemma_sum_bound(s: Seq<Rank>, b: nat)
    requires forall|i: int| 0 <= i < s.len() ==> (#[trigger] s[i]).0 <= b,
    ensures sum_ranks(s) <= s.len() * b,
    decreases s.len(),
{
    if s.len() > 0 {
        lemma_sum_bound(s.drop_last(), b);
        assert(sum_ranks(s) <= (s.len() - 1) * b + b);
        assert((s.len() - 1) * b + b == s.len() * b) by (nonlinear_arith);
    } else {
        assert(0 * b == 0) by (nonlinear_arith);
    }
}

