// ===== prelude/stream.rs — receiver side of the tokio mpsc channels and Sender::clone, ASSUMED contracts =====
// Done channel: other tasks/threads (FnRef::drop) may append to its history at any time, so `poll_recv` first
// lets the environment extend `done.sent` (subject to the rely `done_sent_ok`). Ready channel of stream():
// written only by the polling closure itself, so its history is exact.

/// rely on the senders of the done channel (guaranteed by FnRef::drop + one FnRef per handed id):
/// each id is sent at most once, and only ids that were handed out
pub open spec fn done_sent_ok(w: World) -> bool {
    &&& no_dup(w.done.sent)
    &&& forall|i: int| 0 <= i < w.done.sent.len() ==> seq_has_int(w.handed, #[trigger] w.done.sent[i])
}

pub open spec fn is_prefix(a: Seq<int>, b: Seq<int>) -> bool {
    a.len() <= b.len() && b.subrange(0, a.len() as int) == a
}

impl Receiver<NodeIndex<FnIdInner>> {
    /// tokio `Receiver::poll_recv`: Ready(Some(head)) if non-empty; Ready(None) if empty and every sender is
    /// gone; otherwise Pending AND the task's waker is registered (woken by the next send / last sender drop).
    /// A Ready result registers nothing. Inside a tokio runtime the call may ALSO return Pending without looking at the
    /// channel when the task's cooperative budget is used up; tokio then schedules a wake-up of the task itself: `self_woken`.
    #[verifier::external_body]
    pub fn poll_recv(&mut self, cx: &mut Context, Tracked(w): Tracked<&mut World>) -> (r: Poll<Option<NodeIndex<FnIdInner>>>)
        requires
            old(self).chan() == READY || old(self).chan() == DONE,
            0 <= old(w).ready.recvd <= old(w).ready.sent.len(),
            0 <= old(w).done.recvd <= old(w).done.sent.len(),
        ensures
            final(self).chan() == old(self).chan(),
            old(w).self_woken ==> final(w).self_woken,
            old(self).chan() == READY ==> {
                let c = old(w).ready;
                if r is Pending && final(w).self_woken && !(c.recvd >= c.sent.len() && c.senders != 0 && *final(w) == (World { ready: Chan { waker: true, ..c }, ..*old(w) })) {
                    // budget exhausted: nothing happened to the channel, the runtime has scheduled the task's wake-up
                    *final(w) == (World { self_woken: true, ..*old(w) })
                } else if c.recvd < c.sent.len() {
                    r == Poll::Ready(Some(nid(c.sent[c.recvd])))
                    && *final(w) == (World { ready: Chan { recvd: c.recvd + 1, waker: false, ..c }, handed: old(w).handed.push(c.sent[c.recvd]), ..*old(w) })
                } else if c.senders == 0 {
                    r == Poll::<Option<NodeIndex<FnIdInner>>>::Ready(None) && *final(w) == (World { ready: Chan { closed_seen: true, ..c }, ..*old(w) })
                } else {
                    r is Pending && *final(w) == (World { ready: Chan { waker: true, ..c }, ..*old(w) })
                }
            },
            old(self).chan() == DONE ==> {
                // environment step first: more ids may have been sent by dropped FnRefs
                &&& is_prefix(old(w).done.sent, final(w).done.sent)
                //  (a consequence of the prefix relation, stated for the solver) the already received part is the same set
                &&& seq_to_set(final(w).done.sent, old(w).done.recvd) == seq_to_set(old(w).done.sent, old(w).done.recvd)
                &&& (done_sent_ok(*old(w)) ==> done_sent_ok(*final(w)))
                &&& final(w).done.senders <= old(w).done.senders
                &&& *final(w) == (World { done: final(w).done, self_woken: final(w).self_woken, ..*old(w) })
                &&& final(w).done.cap == old(w).done.cap && final(w).done.rx_alive == old(w).done.rx_alive
                &&& match r {
                        Poll::Ready(Some(id)) => final(w).self_woken == old(w).self_woken && old(w).done.recvd < final(w).done.sent.len() && id.0.0 == final(w).done.sent[old(w).done.recvd]
                            && final(w).done.recvd == old(w).done.recvd + 1 && !final(w).done.waker && final(w).done.closed_seen == old(w).done.closed_seen,
                        Poll::Ready(None) => final(w).self_woken == old(w).self_woken && final(w).done.recvd == old(w).done.recvd && final(w).done.recvd == final(w).done.sent.len()
                            && final(w).done.senders == 0 && final(w).done.closed_seen && final(w).done.waker == old(w).done.waker,
                        Poll::Pending => final(w).done.recvd == old(w).done.recvd && final(w).done.closed_seen == old(w).done.closed_seen
                            && ((final(w).done.recvd == final(w).done.sent.len() && final(w).done.waker) || (final(w).self_woken && final(w).done.waker == old(w).done.waker)),
                    }
            },
    { unimplemented!() }
}

impl Sender<NodeIndex<FnIdInner>> {
    /// `Sender::clone`: one more live sender of the same channel
    #[verifier::external_body]
    pub fn clone(&self, Tracked(w): Tracked<&mut World>) -> (r: Self)
        ensures
            r.chan() == self.chan(),
            self.chan() == DONE ==> *final(w) == (World { done: Chan { senders: old(w).done.senders + 1, ..old(w).done }, ..*old(w) }),
            self.chan() == READY ==> *final(w) == (World { ready: Chan { senders: old(w).ready.senders + 1, ..old(w).ready }, ..*old(w) }),
            self.chan() != DONE && self.chan() != READY ==> *final(w) == *old(w),
    { unimplemented!() }
}

/// the set of the first k elements of a history
pub open spec fn seq_to_set(s: Seq<int>, k: int) -> Set<int> {
    s.subrange(0, k).to_set()
}

pub proof fn lemma_seq_to_set_contains(s: Seq<int>, k: int, x: int)
    requires 0 <= k <= s.len(),
    ensures seq_to_set(s, k).contains(x) <==> exists|i: int| 0 <= i < k && s[i] == x,
{
    let t = s.subrange(0, k);
    if t.to_set().contains(x) {
        assert(t.contains(x));
        let i = choose|i: int| 0 <= i < t.len() && t[i] == x;
        assert(s[i] == x);
    }
    if exists|i: int| 0 <= i < k && s[i] == x {
        let i = choose|i: int| 0 <= i < k && s[i] == x;
        assert(t[i] == x);
        assert(t.contains(x));
    }
}

pub proof fn lemma_seq_to_set_step(s: Seq<int>, k: int)
    requires 0 <= k < s.len(),
    ensures seq_to_set(s, k + 1) == seq_to_set(s, k).insert(s[k]),
{
    assert forall|x: int| seq_to_set(s, k + 1).contains(x) <==> seq_to_set(s, k).insert(s[k]).contains(x) by {
        lemma_seq_to_set_contains(s, k + 1, x);
        lemma_seq_to_set_contains(s, k, x);
        if exists|i: int| 0 <= i < k + 1 && s[i] == x {
            let i = choose|i: int| 0 <= i < k + 1 && s[i] == x;
            if i < k { assert(exists|j: int| 0 <= j < k && s[j] == x); }
        }
    }
    assert(seq_to_set(s, k + 1) =~= seq_to_set(s, k).insert(s[k]));
}

/// the first k elements do not depend on what is appended later
pub proof fn lemma_seq_to_set_prefix(a: Seq<int>, b: Seq<int>, k: int)
    requires is_prefix(a, b), 0 <= k <= a.len(),
    ensures seq_to_set(a, k) == seq_to_set(b, k),
{
    assert(a.subrange(0, k) =~= b.subrange(0, k)) by {
        assert forall|i: int| 0 <= i < k implies a.subrange(0, k)[i] == b.subrange(0, k)[i] by {
            assert(b.subrange(0, a.len() as int)[i] == b[i]);
        }
    }
}

/// invariant of the stream() poll closure between polls (DESIGN §5, I1-I7 for the stream API)
pub open spec fn stream_inv(w: World, counts: Seq<usize>, fns_remaining: int, ready_tx_some: bool, done_tx_some: bool) -> bool {
    &&& world_wf(w)
    &&& counts_inv(w, counts)
    &&& ready_inv(w, counts, ready_tx_some)
    &&& w.ready.rx_alive && w.done.rx_alive
    &&& w.done_recv == seq_to_set(w.done.sent, w.done.recvd)
    &&& w.handed == w.ready.sent.subrange(0, w.ready.recvd)
    &&& fns_remaining == w.n - w.handed.len()
    &&& (ready_tx_some <==> fns_remaining > 0)
    &&& (done_tx_some <==> fns_remaining > 0)
    &&& w.ready.senders == (if ready_tx_some { 1int } else { 0int })
    &&& done_sent_ok(w)
}
