// ===== prelude/fn_meta.rs — the `fn_meta` crate's traits as far as fn_graph's blanket impls use them, ASSUMED =====
/// `fn_meta::FnMetaDyn`: the access lists a function value reports (same lists each time)
pub trait FnMetaDyn {
    spec fn fm_borrows_spec(&self) -> Seq<TypeId>;
    spec fn fm_borrow_muts_spec(&self) -> Seq<TypeId>;
    fn borrows(&self) -> (r: TypeIds)
        ensures r.view() == self.fm_borrows_spec();
    fn borrow_muts(&self) -> (r: TypeIds)
        ensures r.view() == self.fm_borrow_muts_spec();
}

/// `fn_meta::FnMeta`: the access lists of a function TYPE
pub trait FnMeta {
    spec fn fm_static_borrows_spec() -> Seq<TypeId>;
    spec fn fm_static_borrow_muts_spec() -> Seq<TypeId>;
    fn borrows() -> (r: TypeIds)
        ensures r.view() == Self::fm_static_borrows_spec();
    fn borrow_muts() -> (r: TypeIds)
        ensures r.view() == Self::fm_static_borrow_muts_spec();
}
