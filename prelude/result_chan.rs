// ===== prelude/result_chan.rs — the error channel of try_for_each_concurrent* (tokio mpsc), ASSUMED model =====
impl<E> Receiver<E> {
    /// what the channel holds once its last sender is gone: every value accepted by a `send`, in order
    pub uninterp spec fn buffered(&self) -> Seq<E>;
}

/// R27: `stream::poll_fn(move |cx| rx.poll_recv(cx)).collect::<Vec<E>>().await`. ASSUMED (futures `poll_fn` / `collect`,
/// tokio `poll_recv`): the receiver is polled until it reports `None`, which - every sender being dropped by then - happens
/// exactly when the buffer is empty; the collected vector is the buffered values in order, none lost, none repeated.
#[verifier::external_body]
pub fn vx_drain_until_closed<E>(rx: Receiver<E>) -> (r: Vec<E>)
    ensures r@ == rx.buffered(),
{ unimplemented!() }
