// ===== prelude/rank_add.rs — operator specs for the extracted `Rank` =====
// The extracted `impl Add<usize> for Rank` body is VERIFIED against add_spec/add_req.
impl vstd::std_specs::ops::AddSpecImpl<usize> for Rank {
    open spec fn obeys_add_spec() -> bool { true }
    open spec fn add_req(self, rhs: usize) -> bool { self.0 + rhs <= usize::MAX }
    open spec fn add_spec(self, rhs: usize) -> Rank { Rank((self.0 + rhs) as usize) }
}

