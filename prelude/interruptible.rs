// ===== prelude/interruptible.rs — types of the `interruptible` crate 0.2.4 (definitions copied from its source) =====
pub enum PollOutcome<T> {
    /// An interrupt signal was received (item is None when no inner poll was pending)
    Interrupted(Option<T>),
    /// No interrupt signal was received
    NoInterrupt(T),
}
