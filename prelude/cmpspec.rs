// ===== prelude/cmpspec.rs — std::cmp::{max,min}, ASSUMED (std documentation) =====
// ASSUMED (std documentation): cmp::max returns the second argument unless the first is greater.
pub assume_specification<T: Ord> [core::cmp::max] (a: T, b: T) -> (r: T)
    ensures T::obeys_cmp_spec() ==> r == (if a.cmp_spec(&b) == core::cmp::Ordering::Greater { a } else { b });

pub assume_specification<T: Ord> [core::cmp::min] (a: T, b: T) -> (r: T)
    ensures T::obeys_cmp_spec() ==> r == (if a.cmp_spec(&b) == core::cmp::Ordering::Greater { b } else { a });
