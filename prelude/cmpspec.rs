// ===== prelude/cmpspec.rs — std::cmp::{max,min}, ASSUMED (std documentation) =====
// ASSUMED (std documentation): cmp::max returns the second argument unless the first is greater.
pub assume_specification<T: Ord> [core::cmp::max] (a: T, b: T) -> (r: T)
    ensures T::obeys_cmp_spec() ==> r == (if a.cmp_spec(&b) == core::cmp::Ordering::Greater { a } else { b });

pub assume_specification<T: Ord> [core::cmp::min] (a: T, b: T) -> (r: T)
    ensures T::obeys_cmp_spec() ==> r == (if a.cmp_spec(&b) == core::cmp::Ordering::Greater { b } else { a });

// ASSUMED (std documentation): Ord::clamp(self, min, max) (panics if min > max)
pub assume_specification [<usize as core::cmp::Ord>::clamp] (v: usize, lo: usize, hi: usize) -> (r: usize)
    ensures lo <= hi ==> r == (if v < lo { lo } else if v > hi { hi } else { v });

// ASSUMED (std documentation): Ordering::then chains two orderings
pub assume_specification [core::cmp::Ordering::then] (a: core::cmp::Ordering, b: core::cmp::Ordering) -> (r: core::cmp::Ordering)
    ensures r == (if a == core::cmp::Ordering::Equal { b } else { a });

pub assume_specification [core::cmp::Ordering::reverse] (a: core::cmp::Ordering) -> (r: core::cmp::Ordering)
    ensures r == (match a { core::cmp::Ordering::Less => core::cmp::Ordering::Greater, core::cmp::Ordering::Equal => core::cmp::Ordering::Equal, core::cmp::Ordering::Greater => core::cmp::Ordering::Less });
