// ===== prelude/spec_ranks.rs — the oracle of C13, taken from the property statement =====
/// some chain ending at i has exactly ranks[i] edges
pub open spec fn rank_attained<N>(g: &Dag<N, Edge, FnIdInner>, ranks: Seq<Rank>, i: int) -> bool {
    exists|c: Seq<int>| #[trigger] is_chain(g, c) && c.last() == i && c.len() - 1 == ranks[i].0
}

/// the property's oracle (C13): ranks[i] = number of edges of the longest chain ending at i
pub open spec fn ranks_are_longest_chains<N>(g: &Dag<N, Edge, FnIdInner>, ranks: Seq<Rank>) -> bool {
    &&& ranks.len() == g.n()
    &&& forall|i: int| 0 <= i < g.n() ==> #[trigger] rank_attained(g, ranks, i)
    &&& forall|c: Seq<int>| #[trigger] is_chain(g, c) ==> c.len() - 1 <= ranks[c.last()].0
}

