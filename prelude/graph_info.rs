// ===== prelude/graph_info.rs — daggy pieces used by GraphInfo::from_graph, ASSUMED =====

impl<F> FnGraph<F> {
    /// `impl Deref<Target = Dag<..>> for FnGraph` (src/fn_graph.rs: returns &self.graph): `fn_graph.raw_edges()`
    #[verifier::external_body]
    pub fn raw_edges(&self) -> (r: &RawEdges)
        ensures r.es() == self.graph.edges(),
    { unimplemented!() }
}

pub open spec fn triple_is(t: (NodeIndex<FnIdInner>, NodeIndex<FnIdInner>, Edge), e: EdgeV) -> bool {
    t.0.0.0 == e.src && t.1.0.0 == e.dst && t.2 == e.kind
}

/// a numbering that strictly increases along every edge exists (= the edge list is acyclic)
pub open spec fn acyclic_by(es: Seq<EdgeV>, f: spec_fn(int) -> int) -> bool {
    forall|e: int| 0 <= e < es.len() ==> f((#[trigger] es[e]).src) < f(es[e].dst)
}

impl<N> Dag<N, Edge, FnIdInner> {
    /// `Dag::add_edges(iter)` (daggy lib.rs): adds all edges, then checks for a cycle; on WouldCycle the
    /// added edges are removed again. Panics if an endpoint is out of bounds.
    #[verifier::external_body]
    pub fn add_edges(&mut self, edges: VxIter<(NodeIndex<FnIdInner>, NodeIndex<FnIdInner>, Edge)>) -> (r: Result<VxIter<EdgeIndex<FnIdInner>>, WouldCycle<Vec<Edge>>>)
        requires
            old(self).wf(),
            forall|i: int| 0 <= i < edges.rest().len() ==> (#[trigger] edges.rest()[i]).0.0.0 < old(self).n() && edges.rest()[i].1.0.0 < old(self).n(),
        ensures
            final(self).wf() && final(self).n() == old(self).n() && final(self).weights() == old(self).weights(),
            r is Err ==> final(self).edges() == old(self).edges(),
            r is Ok ==> final(self).edges().len() == old(self).edges().len() + edges.rest().len()
                && final(self).edges().subrange(0, old(self).edges().len() as int) == old(self).edges()
                && forall|i: int| 0 <= i < edges.rest().len() ==> triple_is(edges.rest()[i], #[trigger] final(self).edges()[old(self).edges().len() + i]),
            //  accepted iff the result is acyclic; witnessed by a numbering of the combined edge list
            (exists|f: spec_fn(int) -> int| acyclic_by(old(self).edges(), f)
                && forall|i: int| 0 <= i < edges.rest().len() ==> f((#[trigger] edges.rest()[i]).0.0.0 as int) < f(edges.rest()[i].1.0.0 as int)) ==> r is Ok,
    { unimplemented!() }
}
