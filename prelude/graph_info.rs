// ===== prelude/graph_info.rs — daggy pieces used by GraphInfo::from_graph, ASSUMED =====

impl<F> FnGraph<F> {
    /// `impl Deref<Target = Dag<..>> for FnGraph` (src/fn_graph.rs: returns &self.graph): `fn_graph.raw_edges()`
    #[verifier::external_body]
    pub fn raw_edges(&self) -> (r: &RawEdges)
        ensures r.es() == self.graph.edges(),
    { unimplemented!() }
}

pub open spec fn triple_is(t: (NodeIndex<FnIdInner>, NodeIndex<FnIdInner>, Edge), e: EdgeV) -> bool {
    t.0.0.0 == e.src && t.1.0.0 == e.dst && t.2 == e.kind
}

/// a numbering that strictly increases along every edge exists (= the edge list is acyclic)
pub open spec fn acyclic_by(es: Seq<EdgeV>, f: spec_fn(int) -> int) -> bool {
    forall|e: int| 0 <= e < es.len() ==> f((#[trigger] es[e]).src) < f(es[e].dst)
}

impl<N> Dag<N, Edge, FnIdInner> {
    /// `Dag::add_edges(iter)` (daggy lib.rs): adds all edges, then checks for a cycle; on WouldCycle the
    /// added edges are removed again. Panics if an endpoint is out of bounds.
    #[verifier::external_body]
    pub fn add_edges(&mut self, edges: VxIter<(NodeIndex<FnIdInner>, NodeIndex<FnIdInner>, Edge)>) -> (r: Result<VxIter<EdgeIndex<FnIdInner>>, WouldCycle<Vec<Edge>>>)
        requires
            old(self).wf(),
            forall|i: int| 0 <= i < edges.rest().len() ==> (#[trigger] edges.rest()[i]).0.0.0 < old(self).n() && edges.rest()[i].1.0.0 < old(self).n(),
        ensures
            final(self).wf() && final(self).n() == old(self).n() && final(self).weights() == old(self).weights(),
            r is Err ==> final(self).edges() == old(self).edges(),
            r is Ok ==> final(self).edges().len() == old(self).edges().len() + edges.rest().len()
                && final(self).edges().subrange(0, old(self).edges().len() as int) == old(self).edges()
                && forall|i: int| 0 <= i < edges.rest().len() ==> triple_is(edges.rest()[i], #[trigger] final(self).edges()[old(self).edges().len() + i]),
            //  accepted iff the result is acyclic; witnessed by a numbering of the combined edge list
            (exists|f: spec_fn(int) -> int| acyclic_by(old(self).edges(), f)
                && forall|i: int| 0 <= i < edges.rest().len() ==> f((#[trigger] edges.rest()[i]).0.0.0 as int) < f(edges.rest()[i].1.0.0 as int)) ==> r is Ok,
    { unimplemented!() }
}

// ---- pieces used by `impl PartialEq for GraphInfo` (ASSUMED: petgraph raw_nodes, std Iterator::eq) ----
/// petgraph `Node<N>` as exposed by raw_nodes(): public `weight`
pub struct RawNodeW<N> { pub weight: N }

#[verifier::external_body]
#[verifier::reject_recursive_types(N)]
pub struct RawNodesW<N> { _p: PhantomData<N> }

impl<N> RawNodesW<N> {
    pub uninterp spec fn ws(&self) -> Seq<N>;
    /// `<[Node<N>]>::iter`: the nodes in index (insertion) order
    #[verifier::external_body]
    pub fn vx_iter(&self) -> (r: VxIter<&RawNodeW<N>>)
        ensures r.rest().len() == self.ws().len(), forall|i: int| 0 <= i < self.ws().len() ==> (#[trigger] r.rest()[i]).weight == self.ws()[i],
    { unimplemented!() }
}

impl<N> Dag<N, Edge, FnIdInner> {
    /// `Dag::raw_nodes()` with the weights visible (R4: renamed `vx_raw_nodes_w` for this unit)
    #[verifier::external_body]
    pub fn vx_raw_nodes_w(&self) -> (r: &RawNodesW<N>)
        ensures r.ws() == self.weights(),
    { unimplemented!() }
}

impl<'a, N: PartialEq> VxIter<&'a N> {
    /// Iterator::eq on two iterators of references: same length and pairwise `==`
    #[verifier::external_body]
    pub fn eq(self, other: VxIter<&'a N>) -> (r: bool)
        requires N::obeys_eq_spec(),
        ensures r <==> (self.rest().len() == other.rest().len() && forall|i: int| 0 <= i < self.rest().len() ==> (#[trigger] self.rest()[i]).eq_spec(other.rest()[i])),
    { unimplemented!() }
}

impl<'a> VxIter<(NodeIndex<FnIdInner>, NodeIndex<FnIdInner>, &'a Edge)> {
    /// Iterator::eq on two iterators of (source, target, &kind): same length and pairwise equal components
    #[verifier::external_body]
    pub fn eq(self, other: VxIter<(NodeIndex<FnIdInner>, NodeIndex<FnIdInner>, &'a Edge)>) -> (r: bool)
        ensures r <==> (self.rest().len() == other.rest().len() && forall|i: int| 0 <= i < self.rest().len() ==>
            (#[trigger] self.rest()[i]).0 == other.rest()[i].0 && self.rest()[i].1 == other.rest()[i].1 && *self.rest()[i].2 == *other.rest()[i].2),
    { unimplemented!() }
}

/// the meaning of `GraphInfo == GraphInfo`: same node infos in insertion order, same edge list with kinds
pub open spec fn graph_infos_equal<N: PartialEq>(a: &Dag<N, Edge, FnIdInner>, b: &Dag<N, Edge, FnIdInner>) -> bool {
    &&& a.n() == b.n()
    &&& forall|i: int| 0 <= i < a.n() ==> (#[trigger] a.weights()[i]).eq_spec(&b.weights()[i])
    &&& a.edges().len() == b.edges().len()
    &&& forall|e: int| 0 <= e < a.edges().len() ==> #[trigger] a.edges()[e] == b.edges()[e]
}
